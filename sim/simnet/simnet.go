// Package simnet is a small discrete-event network simulator: a heap of
// (virtual time, sequence) events, a transport that delays, reorders,
// duplicates and mis-routes messages, and node life-cycle (crash). Every
// decision is drawn from the run's chooser; virtual time only serves to create
// orderings and to report simulated seconds.
package simnet

import (
	"container/heap"
	"fmt"

	"verifsim/core"
)

// Msg is a message in flight.
type Msg struct {
	From, To int
	Kind     string
	Inst     int
	Payload  any
	Dup      bool
	seq      uint64
}

// Node receives messages.
type Node interface {
	Deliver(n *Net, m *Msg)
}

type event struct {
	at  int64
	seq uint64
	msg *Msg
	fn  func()
}

type evHeap []*event

func (h evHeap) Len() int { return len(h) }
func (h evHeap) Less(i, j int) bool {
	if h[i].at != h[j].at {
		return h[i].at < h[j].at
	}
	return h[i].seq < h[j].seq
}
func (h evHeap) Swap(i, j int) { h[i], h[j] = h[j], h[i] }
func (h *evHeap) Push(x any)   { *h = append(*h, x.(*event)) }
func (h *evHeap) Pop() any {
	old := *h
	n := len(old)
	x := old[n-1]
	*h = old[:n-1]
	return x
}

// Config is drawn once per run.
type Config struct {
	// MaxDelay: each message is delayed by 1 + Draw(MaxDelay) ticks (ticks are
	// microseconds of simulated time). 0 = in-order delivery.
	MaxDelay int
	// DupNum/DupDen: probability of duplicate delivery.
	DupNum, DupDen int
}

// Net is the simulated network.
type Net struct {
	Ctx     *core.RunCtx
	Cfg     Config
	Nodes   map[int]Node
	Crashed map[int]bool
	now     int64
	seq     uint64
	q       evHeap
	Events  int
	Max     int
}

// New creates a network.
func New(ctx *core.RunCtx, cfg Config) *Net {
	return &Net{Ctx: ctx, Cfg: cfg, Nodes: map[int]Node{}, Crashed: map[int]bool{}, Max: 5000}
}

// Now is the virtual time in ticks.
func (n *Net) Now() int64 { return n.now }

// After schedules fn after d ticks.
func (n *Net) After(d int64, fn func()) {
	n.seq++
	heap.Push(&n.q, &event{at: n.now + d, seq: n.seq, fn: fn})
}

// Send hands a message to the transport.
func (n *Net) Send(m *Msg) {
	ch := n.Ctx.Ch
	d := int64(1)
	if n.Cfg.MaxDelay > 0 {
		d += int64(ch.Draw("delay", n.Cfg.MaxDelay))
		n.Ctx.Count("fault.delay-reorder", 1)
	}
	n.seq++
	m.seq = n.seq
	heap.Push(&n.q, &event{at: n.now + d, seq: n.seq, msg: m})
	if n.Cfg.DupNum > 0 && ch.Chance("dup", n.Cfg.DupNum, n.Cfg.DupDen) {
		d2 := d + 1 + int64(ch.Draw("dup-delay", n.Cfg.MaxDelay+1))
		n.seq++
		dm := *m
		dm.Dup = true
		heap.Push(&n.q, &event{at: n.now + d2, seq: n.seq, msg: &dm})
		n.Ctx.Count("fault.duplicate-delivery", 1)
	}
}

// Crash stops a node: messages to it are dropped from now on.
func (n *Net) Crash(id int) {
	n.Crashed[id] = true
	n.Ctx.Count("fault.party-crash", 1)
	n.Ctx.Event("t=%d crash node %d", n.now, id)
}

// Run processes events until the queue is empty or the budget is exhausted.
// It returns false when the budget ran out (a liveness failure of the harness
// or of the system, decided by the caller).
func (n *Net) Run() bool {
	for n.q.Len() > 0 {
		if n.Events >= n.Max {
			return false
		}
		ev := heap.Pop(&n.q).(*event)
		n.now = ev.at
		n.Events++
		if ev.fn != nil {
			ev.fn()
			continue
		}
		m := ev.msg
		if n.Crashed[m.To] {
			n.Ctx.Count("fault.message-to-crashed-node-dropped", 1)
			continue
		}
		node := n.Nodes[m.To]
		if node == nil {
			n.Ctx.Harness("message to unknown node %d", m.To)
		}
		dup := ""
		if m.Dup {
			dup = " (duplicate)"
		}
		n.Ctx.Event("t=%d deliver %s inst=%d %d->%d%s", n.now, m.Kind, m.Inst, m.From, m.To, dup)
		node.Deliver(n, m)
	}
	n.Ctx.SimTimeNs += n.now * 1000
	n.Ctx.Steps += int64(n.Events)
	return true
}

// Describe is used in messages.
func (m *Msg) Describe() string {
	return fmt.Sprintf("%s inst=%d %d->%d", m.Kind, m.Inst, m.From, m.To)
}
