package props

import (
	"fmt"
	"math/big"

	"github.com/tuneinsight/lattigo/v6/core/rlwe"
	"github.com/tuneinsight/lattigo/v6/ring"
	"github.com/tuneinsight/lattigo/v6/ring/ringqp"

	"verifsim/catalog"
	"verifsim/core"
)

// C09, ring layer: histories of ring.Ring operations over a pool of
// polynomials with drawn aliasing patterns (output == first / second input,
// inputs equal, all equal, receiver with previous content); every step is
// mirrored with deep copies and a distinct output.

type c09RingOp struct {
	name string
	// arity: number of polynomial inputs (1 or 2)
	arity int
	// accum: the output is read as well (ThenAdd / ThenSub)
	accum bool
	// noInPlace: documented as "cannot be in place"
	noInPlace bool
	// lower: the output may be one level lower (rescaling)
	call func(r *ring.Ring, a, b ring.Poly, x *c09RingArgs, out ring.Poly)
}

type c09RingArgs struct {
	u    uint64
	k    int
	big  *big.Int
	vec  []uint64
	buff ring.Poly
	list []ring.Poly // EvalPolyScalar: coefficients (a is list[0] or list[len-1])
	gen  uint64
	idx  []uint64
	nb   int
	s0   ring.RNSScalar
	s1   ring.RNSScalar
}

func c09RingOps() []c09RingOp {
	p3 := func(name string, accum bool, f func(r *ring.Ring, a, b, o ring.Poly)) c09RingOp {
		return c09RingOp{name: name, arity: 2, accum: accum, call: func(r *ring.Ring, a, b ring.Poly, x *c09RingArgs, o ring.Poly) { f(r, a, b, o) }}
	}
	p2 := func(name string, f func(r *ring.Ring, a, o ring.Poly)) c09RingOp {
		return c09RingOp{name: name, arity: 1, call: func(r *ring.Ring, a, b ring.Poly, x *c09RingArgs, o ring.Poly) { f(r, a, o) }}
	}
	px := func(name string, accum bool, f func(r *ring.Ring, a ring.Poly, x *c09RingArgs, o ring.Poly)) c09RingOp {
		return c09RingOp{name: name, arity: 1, accum: accum, call: func(r *ring.Ring, a, b ring.Poly, x *c09RingArgs, o ring.Poly) { f(r, a, x, o) }}
	}
	ops := []c09RingOp{
		p3("Add", false, func(r *ring.Ring, a, b, o ring.Poly) { r.Add(a, b, o) }),
		p3("AddLazy", false, func(r *ring.Ring, a, b, o ring.Poly) { r.AddLazy(a, b, o) }),
		p3("Sub", false, func(r *ring.Ring, a, b, o ring.Poly) { r.Sub(a, b, o) }),
		p3("SubLazy", false, func(r *ring.Ring, a, b, o ring.Poly) { r.SubLazy(a, b, o) }),
		p3("MulCoeffsBarrett", false, func(r *ring.Ring, a, b, o ring.Poly) { r.MulCoeffsBarrett(a, b, o) }),
		p3("MulCoeffsBarrettLazy", false, func(r *ring.Ring, a, b, o ring.Poly) { r.MulCoeffsBarrettLazy(a, b, o) }),
		p3("MulCoeffsBarrettThenAdd", true, func(r *ring.Ring, a, b, o ring.Poly) { r.MulCoeffsBarrettThenAdd(a, b, o) }),
		p3("MulCoeffsBarrettThenAddLazy", true, func(r *ring.Ring, a, b, o ring.Poly) { r.MulCoeffsBarrettThenAddLazy(a, b, o) }),
		p3("MulCoeffsMontgomery", false, func(r *ring.Ring, a, b, o ring.Poly) { r.MulCoeffsMontgomery(a, b, o) }),
		p3("MulCoeffsMontgomeryLazy", false, func(r *ring.Ring, a, b, o ring.Poly) { r.MulCoeffsMontgomeryLazy(a, b, o) }),
		p3("MulCoeffsMontgomeryLazyThenNeg", false, func(r *ring.Ring, a, b, o ring.Poly) { r.MulCoeffsMontgomeryLazyThenNeg(a, b, o) }),
		p3("MulCoeffsMontgomeryThenAdd", true, func(r *ring.Ring, a, b, o ring.Poly) { r.MulCoeffsMontgomeryThenAdd(a, b, o) }),
		p3("MulCoeffsMontgomeryThenAddLazy", true, func(r *ring.Ring, a, b, o ring.Poly) { r.MulCoeffsMontgomeryThenAddLazy(a, b, o) }),
		p3("MulCoeffsMontgomeryLazyThenAddLazy", true, func(r *ring.Ring, a, b, o ring.Poly) { r.MulCoeffsMontgomeryLazyThenAddLazy(a, b, o) }),
		p3("MulCoeffsMontgomeryThenSub", true, func(r *ring.Ring, a, b, o ring.Poly) { r.MulCoeffsMontgomeryThenSub(a, b, o) }),
		p3("MulCoeffsMontgomeryThenSubLazy", true, func(r *ring.Ring, a, b, o ring.Poly) { r.MulCoeffsMontgomeryThenSubLazy(a, b, o) }),
		p3("MulCoeffsMontgomeryLazyThenSubLazy", true, func(r *ring.Ring, a, b, o ring.Poly) { r.MulCoeffsMontgomeryLazyThenSubLazy(a, b, o) }),
		p2("Neg", func(r *ring.Ring, a, o ring.Poly) { r.Neg(a, o) }),
		p2("Reduce", func(r *ring.Ring, a, o ring.Poly) { r.Reduce(a, o) }),
		p2("ReduceLazy", func(r *ring.Ring, a, o ring.Poly) { r.ReduceLazy(a, o) }),
		p2("MForm", func(r *ring.Ring, a, o ring.Poly) { r.MForm(a, o) }),
		p2("MFormLazy", func(r *ring.Ring, a, o ring.Poly) { r.MFormLazy(a, o) }),
		p2("IMForm", func(r *ring.Ring, a, o ring.Poly) { r.IMForm(a, o) }),
		p2("NTT", func(r *ring.Ring, a, o ring.Poly) { r.NTT(a, o) }),
		p2("NTTLazy", func(r *ring.Ring, a, o ring.Poly) { r.NTTLazy(a, o) }),
		p2("INTT", func(r *ring.Ring, a, o ring.Poly) { r.INTT(a, o) }),
		p2("INTTLazy", func(r *ring.Ring, a, o ring.Poly) { r.INTTLazy(a, o) }),
		px("AddScalar", false, func(r *ring.Ring, a ring.Poly, x *c09RingArgs, o ring.Poly) { r.AddScalar(a, x.u, o) }),
		px("SubScalar", false, func(r *ring.Ring, a ring.Poly, x *c09RingArgs, o ring.Poly) { r.SubScalar(a, x.u, o) }),
		px("MulScalar", false, func(r *ring.Ring, a ring.Poly, x *c09RingArgs, o ring.Poly) { r.MulScalar(a, x.u, o) }),
		px("MulScalarThenAdd", true, func(r *ring.Ring, a ring.Poly, x *c09RingArgs, o ring.Poly) { r.MulScalarThenAdd(a, x.u, o) }),
		px("MulScalarThenSub", true, func(r *ring.Ring, a ring.Poly, x *c09RingArgs, o ring.Poly) { r.MulScalarThenSub(a, x.u, o) }),
		px("AddScalarBigint", false, func(r *ring.Ring, a ring.Poly, x *c09RingArgs, o ring.Poly) { r.AddScalarBigint(a, x.big, o) }),
		px("SubScalarBigint", false, func(r *ring.Ring, a ring.Poly, x *c09RingArgs, o ring.Poly) { r.SubScalarBigint(a, x.big, o) }),
		px("MulScalarBigint", false, func(r *ring.Ring, a ring.Poly, x *c09RingArgs, o ring.Poly) { r.MulScalarBigint(a, x.big, o) }),
		px("MulScalarBigintThenAdd", true, func(r *ring.Ring, a ring.Poly, x *c09RingArgs, o ring.Poly) { r.MulScalarBigintThenAdd(a, x.big, o) }),
		px("Shift", false, func(r *ring.Ring, a ring.Poly, x *c09RingArgs, o ring.Poly) { r.Shift(a, x.k, o) }),
		px("MultByMonomial", false, func(r *ring.Ring, a ring.Poly, x *c09RingArgs, o ring.Poly) { r.MultByMonomial(a, x.k, o) }),
		px("MulByVectorMontgomery", false, func(r *ring.Ring, a ring.Poly, x *c09RingArgs, o ring.Poly) { r.MulByVectorMontgomery(a, x.vec, o) }),
		px("MulByVectorMontgomeryThenAddLazy", true, func(r *ring.Ring, a ring.Poly, x *c09RingArgs, o ring.Poly) {
			r.MulByVectorMontgomeryThenAddLazy(a, x.vec, o)
		}),
		px("AddDoubleRNSScalar", false, func(r *ring.Ring, a ring.Poly, x *c09RingArgs, o ring.Poly) { r.AddDoubleRNSScalar(a, x.s0, x.s1, o) }),
		px("SubDoubleRNSScalar", false, func(r *ring.Ring, a ring.Poly, x *c09RingArgs, o ring.Poly) { r.SubDoubleRNSScalar(a, x.s0, x.s1, o) }),
		px("MulDoubleRNSScalar", false, func(r *ring.Ring, a ring.Poly, x *c09RingArgs, o ring.Poly) { r.MulDoubleRNSScalar(a, x.s0, x.s1, o) }),
		px("MulDoubleRNSScalarThenAdd", true, func(r *ring.Ring, a ring.Poly, x *c09RingArgs, o ring.Poly) {
			r.MulDoubleRNSScalarThenAdd(a, x.s0, x.s1, o)
		}),
		px("MulRNSScalarMontgomery", false, func(r *ring.Ring, a ring.Poly, x *c09RingArgs, o ring.Poly) { r.MulRNSScalarMontgomery(a, x.s0, o) }),
		px("RNSScalar arithmetic", false, func(r *ring.Ring, a ring.Poly, x *c09RingArgs, o ring.Poly) {
			// scalar results with the receiver among the operands (x.k selects the pattern), folded into the output
			// polynomial so that the usual comparison sees them
			t, u := append(ring.RNSScalar{}, x.s0...), append(ring.RNSScalar{}, x.s1...)
			switch ((x.k % 4) + 4) % 4 {
			case 0:
				r.MulRNSScalar(t, u, t)
			case 1:
				r.MulRNSScalar(t, u, u)
				t = u
			case 2:
				r.SubRNSScalar(t, u, t)
			default:
				r.SubRNSScalar(t, u, u)
				t = u
			}
			r.MFormRNSScalar(t, t)
			r.NegRNSScalar(t, t)
			r.MulRNSScalarMontgomery(a, t, o)
		}),
		px("EvalPolyScalar", false, func(r *ring.Ring, a ring.Poly, x *c09RingArgs, o ring.Poly) { r.EvalPolyScalar(x.list, x.u, o) }),
		px("DivFloorByLastModulus", false, func(r *ring.Ring, a ring.Poly, x *c09RingArgs, o ring.Poly) { r.DivFloorByLastModulus(a, o) }),
		px("DivRoundByLastModulus", false, func(r *ring.Ring, a ring.Poly, x *c09RingArgs, o ring.Poly) { r.DivRoundByLastModulus(a, o) }),
		px("DivFloorByLastModulusNTT", false, func(r *ring.Ring, a ring.Poly, x *c09RingArgs, o ring.Poly) { r.DivFloorByLastModulusNTT(a, x.buff, o) }),
		px("DivRoundByLastModulusNTT", false, func(r *ring.Ring, a ring.Poly, x *c09RingArgs, o ring.Poly) { r.DivRoundByLastModulusNTT(a, x.buff, o) }),
		px("DivFloorByLastModulusMany", false, func(r *ring.Ring, a ring.Poly, x *c09RingArgs, o ring.Poly) {
			r.DivFloorByLastModulusMany(x.nb, a, x.buff, o)
		}),
		px("DivRoundByLastModulusMany", false, func(r *ring.Ring, a ring.Poly, x *c09RingArgs, o ring.Poly) {
			r.DivRoundByLastModulusMany(x.nb, a, x.buff, o)
		}),
		px("DivFloorByLastModulusManyNTT", false, func(r *ring.Ring, a ring.Poly, x *c09RingArgs, o ring.Poly) {
			r.DivFloorByLastModulusManyNTT(x.nb, a, x.buff, o)
		}),
		px("DivRoundByLastModulusManyNTT", false, func(r *ring.Ring, a ring.Poly, x *c09RingArgs, o ring.Poly) {
			r.DivRoundByLastModulusManyNTT(x.nb, a, x.buff, o)
		}),
	}
	auto := []c09RingOp{
		px("AutomorphismNTT", false, func(r *ring.Ring, a ring.Poly, x *c09RingArgs, o ring.Poly) { r.AutomorphismNTT(a, x.gen, o) }),
		px("Automorphism", false, func(r *ring.Ring, a ring.Poly, x *c09RingArgs, o ring.Poly) { r.Automorphism(a, x.gen, o) }),
		px("AutomorphismNTTWithIndex", false, func(r *ring.Ring, a ring.Poly, x *c09RingArgs, o ring.Poly) { r.AutomorphismNTTWithIndex(a, x.idx, o) }),
		px("AutomorphismNTTWithIndexThenAddLazy", true, func(r *ring.Ring, a ring.Poly, x *c09RingArgs, o ring.Poly) {
			r.AutomorphismNTTWithIndexThenAddLazy(a, x.idx, o)
		}),
	}
	for i := range auto {
		auto[i].noInPlace = true
	}
	return append(ops, auto...)
}

func polyHash(p ring.Poly) uint64 { return hashPoly(uint64(len(p.Coeffs))*77+1, p) }

func polyEqualRaw(a, b ring.Poly, rows int) (bool, string) {
	for i := 0; i < rows; i++ {
		for j := range a.Coeffs[i] {
			if a.Coeffs[i][j] != b.Coeffs[i][j] {
				return false, fmt.Sprintf("row %d coefficient %d: %d vs %d", i, j, a.Coeffs[i][j], b.Coeffs[i][j])
			}
		}
	}
	return true, ""
}

func c09RingRun(ctx *core.RunCtx) {
	ch := ctx.Ch
	params, _ := drawParams(ctx, catalog.SpecOpts{MinLogN: 4, MaxLogN: 7, MinQ: 2, MaxQ: 5, MinP: 0, MaxP: 1, MinBits: 30, MaxBits: 60})
	g := core.NewXoshiro(uint64(ch.Draw("content-seed", 1<<20)))
	level := 1 + ch.Draw("ring-level", params.MaxLevelQ())
	r := params.RingQ().AtLevel(level)
	ops := c09RingOps()
	var pool []ring.Poly
	for i := 0; i < 5; i++ {
		p := r.NewPoly()
		catalog.FillPoly(r, p, g)
		pool = append(pool, p)
	}
	nsteps := 8 + ch.Draw("nsteps", 30)
	interesting := 0
	for s := 0; s < nsteps; s++ {
		op := &ops[ch.Draw("ring-op", len(ops))]
		a := pool[ch.Draw("op0", len(pool))]
		var b ring.Poly
		if op.arity == 2 {
			b = pool[ch.Draw("op1", len(pool))]
		}
		x := &c09RingArgs{u: g.Next() >> uint(ch.Draw("scalar-shift", 64)), k: ch.Draw("k", 4*r.N()) - 2*r.N(), nb: 1 + ch.Draw("nb-rescales", level)}
		x.big = new(big.Int).SetUint64(g.Next())
		x.big.Lsh(x.big, uint(ch.Draw("bigint-shift", 200)))
		if g.Next()&1 == 1 {
			x.big.Neg(x.big)
		}
		x.vec = make([]uint64, r.N())
		for i := range x.vec {
			x.vec[i] = g.Next() % r.SubRings[0].Modulus
		}
		x.buff = r.NewPoly()
		catalog.FillPoly(r, x.buff, g)
		x.gen = ring.GaloisGen
		for i := ch.Draw("gen-power", 5); i > 0; i-- {
			x.gen = x.gen * ring.GaloisGen % r.NthRoot()
		}
		if ch.Chance("gen-conjugate", 1, 5) {
			x.gen = r.NthRoot() - 1
		}
		x.idx, _ = ring.AutomorphismNTTIndex(r.N(), r.NthRoot(), x.gen)
		x.s0, x.s1 = r.NewRNSScalarFromUInt64(g.Next()), r.NewRNSScalarFromBigint(x.big)
		// aliasing pattern
		pat := ch.Weighted("alias", []int{3, 4, 3, 2, 2, 3})
		var out ring.Poly
		patName := "fresh-out"
		evalList := op.name == "EvalPolyScalar"
		if evalList {
			n := 2 + ch.Draw("poly-degree", 4)
			x.list = []ring.Poly{a}
			for i := 1; i < n; i++ {
				x.list = append(x.list, pool[ch.Draw("coefficient", len(pool))])
			}
		}
		switch pat {
		case 1:
			out, patName = a, "out==op0"
		case 2:
			if op.arity == 2 {
				out, patName = b, "out==op1"
			} else if evalList {
				out, patName = x.list[len(x.list)-1], "out==last-coefficient"
			}
		case 3:
			if op.arity == 2 {
				b, patName = a, "op0==op1"
			}
		case 4:
			if op.arity == 2 {
				b, out, patName = a, a, "out==op0==op1"
			}
		case 5:
			out = r.NewPoly()
			catalog.FillPoly(r, out, g)
			patName = "dirty-out"
		}
		if op.noInPlace && (patName == "out==op0" || patName == "out==op0==op1") {
			// documented: the result cannot be in place
			out, patName = ring.Poly{}, "fresh-out"
			if pat == 4 {
				b = a
			}
		}
		if out.Coeffs == nil {
			out = r.NewPoly()
			if op.accum {
				catalog.FillPoly(r, out, g)
				patName += "+accumulator"
			}
		}
		// twin: deep copies, distinct output (holding the same previous content for accumulating operations)
		ta := *a.CopyNew()
		var tb ring.Poly
		if op.arity == 2 {
			tb = *b.CopyNew()
			if &b.Coeffs[0][0] == &a.Coeffs[0][0] {
				tb = ta
			}
		}
		tx := *x
		tx.big = new(big.Int).Set(x.big)
		tx.vec = append([]uint64{}, x.vec...)
		tx.buff = r.NewPoly()
		tx.idx = append([]uint64{}, x.idx...)
		tx.s0, tx.s1 = append(ring.RNSScalar{}, x.s0...), append(ring.RNSScalar{}, x.s1...)
		tx.list = nil
		for _, p := range x.list {
			tx.list = append(tx.list, *p.CopyNew())
		}
		if evalList {
			ta = tx.list[0]
		}
		tout := r.NewPoly()
		if op.accum {
			tout = *out.CopyNew()
		}
		same := func(p, q ring.Poly) bool { return &p.Coeffs[0][0] == &q.Coeffs[0][0] }
		ha, hbig, hvec, hidx := polyHash(a), x.big.Text(16), hashOperand(x.vec), hashOperand(x.idx)
		hs := hashOperand([]uint64(x.s0)) ^ 3*hashOperand([]uint64(x.s1))
		var hb uint64
		if op.arity == 2 {
			hb = polyHash(b)
		}
		var hl []uint64
		for _, p := range x.list {
			hl = append(hl, polyHash(p))
		}
		sysSt := c09Exec(func() error { op.call(r, a, b, x, out); return nil })
		twinSt := c09Exec(func() error { op.call(r, ta, tb, &tx, tout); return nil })
		cls := "ring|" + op.name + "|" + aliasClass(patName)
		ctx.Count("oracle.twin-step", 1)
		ctx.Count("op.ring."+op.name, 1)
		ctx.Event("ring step %d %s %s level=%d k=%d nb=%d -> sys %d twin %d", s, op.name, patName, level, x.k, x.nb, sysSt.kind, twinSt.kind)
		if patName != "fresh-out" {
			interesting++
		}
		if sysSt.kind != twinSt.kind {
			ctx.Fail("status", cls+"|status-differs", "ring.%s %s: %s ; with copies of the inputs and a distinct output: %s", op.name, patName, sysSt, twinSt)
			return
		}
		if sysSt.kind != 0 {
			ctx.Count("probe.step-rejected-by-both", 1)
			continue
		}
		// inputs intact
		if !same(out, a) && polyHash(a) != ha {
			ctx.Fail("inputs", cls+"|op0-modified", "ring.%s modified its first operand although the output is a different polynomial (%s)", op.name, patName)
			return
		}
		if op.arity == 2 && !same(out, b) && polyHash(b) != hb {
			ctx.Fail("inputs", cls+"|op1-modified", "ring.%s modified its second operand although the output is a different polynomial (%s)", op.name, patName)
			return
		}
		for i, p := range x.list {
			if !same(out, p) && polyHash(p) != hl[i] {
				ctx.Fail("inputs", cls+"|coefficient-modified", "ring.%s modified coefficient %d of its input polynomial list (%s)", op.name, i, patName)
				return
			}
		}
		if x.big.Text(16) != hbig || hashOperand(x.vec) != hvec || hashOperand(x.idx) != hidx || hashOperand([]uint64(x.s0))^3*hashOperand([]uint64(x.s1)) != hs {
			ctx.Fail("inputs", cls+"|argument-modified", "ring.%s modified a scalar, vector or index argument", op.name)
			return
		}
		// same value; rescaling operations define only the lower rows
		rows := level + 1
		switch op.name {
		case "DivFloorByLastModulus", "DivRoundByLastModulus", "DivFloorByLastModulusNTT", "DivRoundByLastModulusNTT":
			rows = level
		case "DivFloorByLastModulusMany", "DivRoundByLastModulusMany", "DivFloorByLastModulusManyNTT", "DivRoundByLastModulusManyNTT":
			rows = level + 1 - x.nb
		}
		if ok, w := polyEqualRaw(out, tout, rows); !ok {
			ctx.Fail("result", cls+"|differs", "ring.%s with %s gives a different polynomial than with copies of the inputs and a distinct output: %s (level %d, k=%d, rescales=%d)", op.name, patName, w, level, x.k, x.nb)
			return
		}
		// the result feeds later steps (rows above the defined ones keep whatever they held: reduce them)
		if rows == level+1 && !same(out, a) && (op.arity < 2 || !same(out, b)) {
			r.Reduce(out, out)
			pool[ch.Draw("pool-slot", len(pool))] = out
		} else {
			for _, p := range pool {
				r.Reduce(p, p)
			}
		}
	}
	// a polynomial whose level was lowered and is raised again holds zero rows above the level it kept (Resize is what
	// every operation uses to give its receiver the level of the result)
	if r.MaxLevel() > 0 {
		p := *pool[0].CopyNew()
		top := p.Level()
		if top > 0 {
			keep := ch.Draw("resize-keep-level", top)
			p.Resize(keep)
			p.Resize(top)
			ctx.Count("oracle.resize-up-gives-zero-rows", 1)
			for i := keep + 1; i <= top; i++ {
				for j, c := range p.Coeffs[i] {
					if c != 0 {
						ctx.Fail("result", "ring|Poly.Resize|residue", "a polynomial lowered from level %d to %d and raised again has its former content in row %d (coefficient %d is %d): the rows a raise adds are zero", top, keep, i, j, c)
						return
					}
				}
			}
		}
	}
	if interesting > 0 {
		ctx.Nontrivial = true
	}
	ctx.Steps += int64(nsteps)
}

// C09, key generator: one long-lived rlwe.KeyGenerator writes keys into
// receivers that held other keys before; the secret keys passed as inputs
// must stay intact and every generated key must be a key of the requested
// kind (row noise within the fresh-noise bound, tags set).
func c09KeyGenRun(ctx *core.RunCtx) {
	ch := ctx.Ch
	params, _ := drawParams(ctx, catalog.SpecOpts{MinLogN: 5, MaxLogN: 7, MinQ: 2, MaxQ: 4, MinP: 0, MaxP: 2, MinBits: 30, MaxBits: 58})
	g := core.NewXoshiro(uint64(ch.Draw("content-seed", 1<<20)))
	kgen := rlwe.NewKeyGenerator(params)
	sk, sk2 := kgen.GenSecretKeyNew(), kgen.GenSecretKeyNew()
	B := big.NewInt(int64(params.NoiseBound()))
	ringQ := params.RingQ()
	hsk := func(s *rlwe.SecretKey) uint64 { return hashQP(s.Value) }
	drawEP := func() rlwe.EvaluationKeyParameters {
		lq := ch.Draw("evk-levelq", params.MaxLevelQ()+1)
		lp := params.MaxLevelP()
		if lp > 0 && ch.Bool("evk-lower-levelp") {
			lp--
		}
		b2 := 0
		if ch.Chance("evk-base2", 1, 3) {
			b2 = 8 + ch.Draw("evk-base2-bits", 20)
		}
		return rlwe.EvaluationKeyParameters{LevelQ: &lq, LevelP: &lp, BaseTwoDecomposition: &b2}
	}
	dirtyGadget := func(gc *rlwe.GadgetCiphertext) {
		for i := range gc.Value {
			for j := range gc.Value[i] {
				for k := range gc.Value[i][j] {
					catalog.FillPolyQP(params.RingQP().AtLevel(gc.LevelQ(), gc.LevelP()), gc.Value[i][j][k], g)
				}
			}
		}
	}
	nsteps := 3 + ch.Draw("nsteps", 6)
	// long-lived receivers, reused across steps with the same key parameters
	ep := drawEP()
	rlk := rlwe.NewRelinearizationKey(params, ep)
	gk := rlwe.NewGaloisKey(params, ep)
	evk := rlwe.NewEvaluationKey(params, ep)
	pk := rlwe.NewPublicKey(params)
	for s := 0; s < nsteps; s++ {
		h1, h2 := hsk(sk), hsk(sk2)
		poison := ch.Bool("poison")
		if poison {
			st := core.PoisonScratch(kgen, core.NewXoshiro(g.Next()))
			ctx.Count("fault.scratch-poisoned", 1)
			ctx.Count("poisoned-bytes", int64(st.Bytes))
		}
		dirty := ch.Bool("dirty-receiver")
		var gc *rlwe.GadgetCiphertext
		var skIn ring.Poly
		var skOut ringqp.Poly
		kind := ch.Draw("keygen-op", 5)
		name := []string{"GenRelinearizationKey", "GenGaloisKey", "GenEvaluationKey", "GenPublicKey", "GenSecretKey"}[kind]
		var st c09Status
		switch kind {
		case 0:
			if dirty {
				dirtyGadget(&rlk.GadgetCiphertext)
			}
			st = c09Exec(func() error { kgen.GenRelinearizationKey(sk, rlk); return nil })
			gc = &rlk.GadgetCiphertext
			skIn = ringQ.NewPoly()
			ringQ.MulCoeffsMontgomery(sk.Value.Q, sk.Value.Q, skIn)
			skOut = sk.Value
		case 1:
			galEl := params.GaloisElement(1 + ch.Draw("rotation", 9))
			if ch.Chance("conjugation", 1, 4) {
				galEl = params.GaloisElementOrderTwoOrthogonalSubgroup()
			}
			if dirty {
				dirtyGadget(&gk.GadgetCiphertext)
				gk.GaloisElement, gk.NthRoot = 12345, 7
			}
			st = c09Exec(func() error { kgen.GenGaloisKey(galEl, sk, gk); return nil })
			gc = &gk.GadgetCiphertext
			skIn = sk.Value.Q
			skOut = params.RingQP().NewPoly()
			inv := ring.ModExp(galEl, ringQ.NthRoot()-1, ringQ.NthRoot())
			params.RingQP().AutomorphismNTT(sk.Value, inv, skOut)
			if st.kind == 0 && (gk.GaloisElement != galEl || gk.NthRoot != ringQ.NthRoot()) {
				ctx.Fail("result", "keygen|GenGaloisKey|tags", "GenGaloisKey(%d) into a reused key left the tags (element %d, NthRoot %d)", galEl, gk.GaloisElement, gk.NthRoot)
				return
			}
		case 2:
			if dirty {
				dirtyGadget(&evk.GadgetCiphertext)
			}
			st = c09Exec(func() error { kgen.GenEvaluationKey(sk, sk2, evk); return nil })
			gc = &evk.GadgetCiphertext
			skIn, skOut = sk.Value.Q, sk2.Value
		case 3:
			if dirty {
				catalog.FillPolyQP(*params.RingQP(), pk.Value[0], g)
				catalog.FillPolyQP(*params.RingQP(), pk.Value[1], g)
			}
			st = c09Exec(func() error { kgen.GenPublicKey(sk, pk); return nil })
			gc = &rlwe.GadgetCiphertext{Value: [][]rlwe.VectorQP{{rlwe.VectorQP{pk.Value[0], pk.Value[1]}}}}
			skIn, skOut = ringQ.NewPoly(), sk.Value
		default:
			// a new secret into a receiver that held another one: ternary over every modulus, consistent across moduli
			tgt := sk2.CopyNew()
			st = c09Exec(func() error { kgen.GenSecretKey(tgt); return nil })
			if st.kind == 0 {
				rqp := params.RingQP()
				c := rqp.NewPoly()
				rqp.INTT(tgt.Value, c)
				rqp.IMForm(c, c)
				for x := 0; x < params.N(); x++ {
					v := int64(c.Q.Coeffs[0][x])
					q0 := int64(ringQ.SubRings[0].Modulus)
					if v > q0/2 {
						v -= q0
					}
					if v < -1 || v > 1 {
						ctx.Fail("result", "keygen|GenSecretKey|not-ternary", "GenSecretKey into a reused secret key: coefficient %d is %d", x, v)
						return
					}
					rows := append(append([][]uint64{}, c.Q.Coeffs...), func() [][]uint64 {
						if c.P.Coeffs != nil {
							return c.P.Coeffs
						}
						return nil
					}()...)
					mods := append(append([]uint64{}, params.Q()...), params.P()...)
					for i, row := range rows {
						w := int64(row[x])
						if w > int64(mods[i]/2) {
							w -= int64(mods[i])
						}
						if w != v {
							ctx.Fail("result", "keygen|GenSecretKey|inconsistent-moduli", "GenSecretKey into a reused secret key: coefficient %d is %d modulo the first prime and %d modulo prime %d", x, v, w, i)
							return
						}
					}
				}
			}
		}
		ctx.Count("oracle.keygen-step", 1)
		ctx.Count("op.keygen."+name, 1)
		ctx.Event("keygen step %d %s dirty=%v poison=%v -> %d", s, name, dirty, poison, st.kind)
		if st.kind != 0 {
			ctx.Fail("status", "keygen|"+name+"|fails", "%s into a receiver allocated for the same parameters (dirty=%v, scratch poisoned=%v): %s", name, dirty, poison, st)
			return
		}
		if hsk(sk) != h1 || hsk(sk2) != h2 {
			ctx.Fail("inputs", "keygen|"+name+"|secret-modified", "%s modified a secret key passed as input", name)
			return
		}
		if gc != nil {
			e, where := gadgetNoise(params, gc, skIn, skOut)
			ctx.Count("oracle.key-noise", 1)
			if e.Cmp(B) > 0 {
				ctx.Fail("result", "keygen|"+name+"|row-noise", "%s into a reused receiver (previous content arbitrary=%v, scratch poisoned=%v): some row is not an encryption of the gadget term: recovered error %s > fresh-noise bound %s (%s)", name, dirty, poison, e.String(), B.String(), where)
				return
			}
		}
	}
	ctx.Nontrivial = true
	ctx.Steps += int64(nsteps)
}
