package props

import (
	"bytes"
	"fmt"
	"math"
	"math/big"
	"strings"

	"github.com/tuneinsight/lattigo/v6/core/rlwe"
	"github.com/tuneinsight/lattigo/v6/ring"
	"github.com/tuneinsight/lattigo/v6/ring/ringqp"
	"github.com/tuneinsight/lattigo/v6/utils/sampling"

	"verifsim/catalog"
	"verifsim/core"
)

// C17: samplers as history-dependent objects. A run is a history of calls on
// a sampler and its level views over one keyed source, mirrored step by step
// on a twin built from the same key; after every call the distribution
// contract is checked on the polynomial just produced.

type c17 struct{}

func (c17) ID() string { return "C17" }
func (c17) Runs(tier string) int {
	if tier == "thorough" {
		return 1000000
	}
	return 4000
}
func (c17) Describe() core.Description {
	return core.Description{
		Level:  "exploration",
		Rule:   "per run: drawn ring (LogN 4-8, 1-4 moduli of unequal size), drawn distribution (uniform / Gaussian with sigma 0.5..2^70 and bound/sigma 0.5..8 incl. the big-number path / ternary with P in {0.5, 2/3, drawn} or H in 1..N), Montgomery flag, 32-byte key (raw generator: keys of 1-64 bytes); history of 4-50 calls drawn from {Read, ReadNew, ReadAndAdd on the base sampler or on any level view, create view AtLevel(l), ringqp sampler calls}, executed on the system sampler and on a twin with the same key; then reset-and-replay, different-key divergence, compressed-key expansion twin, seeded-encryption twin (a secret-key encryptor bound WithPRNG against a sampler with the same key, receivers of degree 0 and 1 at drawn levels). Non-trivial = history with >= 2 level views interleaved or >= 1 ReadAndAdd; distinct = distinct choice traces",
		Real:   []string{"ring.UniformSampler/GaussianSampler/TernarySampler and their AtLevel views", "ringqp.UniformSampler (+AtLevel, WithPRNG)", "sampling.KeyedPRNG (BLAKE2b XOF) incl. Reset", "rlwe.EvaluationKey.Expand / compressed key generation", "rlwe.Encryptor.WithPRNG + EncryptZero (secret key)", "ring.Ring.PolyToBigintCentered, IMForm (substrate for the oracles)"},
		Stub:   []string{"entropy source for keys (deterministic crypto/rand.Reader)", "recording wrapper around the keyed source (counts bytes and calls)"},
		Assume: []string{"no fault is injected: a sampling.PRNG that short-reads or fails is outside the documented contract", "statistical bands are at least 8 standard errors wide and only evaluated on >= 2000 coefficients"},
	}
}

func init() { core.Register(c17{}) }

// recReader wraps a PRNG and counts what is drawn from it.
type recReader struct {
	src   sampling.PRNG
	bytes int64
	calls int64
	// short: when set, a Read delivers at most short() bytes (with a nil error), as any io.Reader may:
	// the fault of the randomness seam
	short func() int
}

func (r *recReader) Read(p []byte) (int, error) {
	if r.short != nil && len(p) > 1 {
		if k := r.short(); k < len(p) {
			p = p[:k]
		}
	}
	n, err := r.src.Read(p)
	r.bytes += int64(n)
	r.calls++
	return n, err
}

type c17Dist struct {
	kind  int // 0 uniform, 1 gaussian, 2 ternary P, 3 ternary H
	sigma float64
	bound float64
	p     float64
	h     int
	mont  bool
	big   bool
}

func (d c17Dist) params() ring.DistributionParameters {
	switch d.kind {
	case 0:
		return ring.Uniform{}
	case 1:
		return ring.DiscreteGaussian{Sigma: d.sigma, Bound: d.bound}
	case 2:
		return ring.Ternary{P: d.p}
	default:
		return ring.Ternary{H: d.h}
	}
}

func (d c17Dist) String() string {
	switch d.kind {
	case 0:
		return "uniform"
	case 1:
		return fmt.Sprintf("gaussian(sigma=%g,bound=%g,mont=%v)", d.sigma, d.bound, d.mont)
	case 2:
		return fmt.Sprintf("ternary(P=%g,mont=%v)", d.p, d.mont)
	default:
		return fmt.Sprintf("ternary(H=%d,mont=%v)", d.h, d.mont)
	}
}

type c17Side struct {
	src   *sampling.KeyedPRNG
	rec   *recReader
	views []ring.Sampler // views[0] is the base sampler
	lvls  []int
}

func newC17Side(ctx *core.RunCtx, key []byte, r *ring.Ring, d c17Dist) *c17Side {
	src, err := sampling.NewKeyedPRNG(key)
	if err != nil {
		ctx.Harness("NewKeyedPRNG: %v", err)
	}
	s := &c17Side{src: src, rec: &recReader{src: src}}
	smp, err := ring.NewSampler(s.rec, r, d.params(), d.mont)
	if err != nil {
		ctx.Harness("NewSampler(%s): %v", d, err)
	}
	s.views = []ring.Sampler{smp}
	s.lvls = []int{r.Level()}
	return s
}

type c17Step struct {
	op    int // 0 Read, 1 ReadNew, 2 ReadAndAdd, 3 AtLevel
	view  int
	level int
	from  int
}

var c17OpNames = []string{"Read", "ReadNew", "ReadAndAdd", "AtLevel"}

type c17Stats struct {
	n            float64
	sum, sumsq   float64
	nonzero, pos float64
	unifSum      float64
	unifN        float64
	// successive coefficients of one sample: how often a zero follows a +1 / a -1
	afterPos, afterPosZero float64
	afterNeg, afterNegZero float64
}

func (p c17) Run(ctx *core.RunCtx) {
	ch := ctx.Ch
	// ring
	var params rlwe.Parameters
	var spec catalog.RLWESpec
	for try := 0; ; try++ {
		spec = catalog.DrawRLWESpec(ch, catalog.SpecOpts{MinLogN: 4, MaxLogN: 8, MinQ: 1, MaxQ: 4, MinP: 0, MaxP: 1, MinBits: 20, MaxBits: 60})
		s := spec
		c := ctx.Cached(s.Key(), func(*core.Xoshiro) any {
			pp, err := s.Build()
			if err != nil {
				return err
			}
			return &pp
		})
		if pp, ok := c.(*rlwe.Parameters); ok {
			params = *pp
			break
		}
		if try > 20 {
			ctx.Harness("no parameter set")
		}
	}
	r := params.RingQ()
	N := r.N()
	L := r.Level()
	if ch.Chance("extreme-density", 1, 40) {
		// densities at the ends of (0,1): the constructor refuses them, or the sampler returns ternary polynomials
		// (in bounded time) - nearly all zero, respectively nearly none
		pv := []float64{1e-17, 1.0 / (1 << 60), 1e-9, 1 - 1e-9, 1 - 1.0/(1<<52)}[ch.Draw("extreme-p", 5)]
		key := make([]byte, 32)
		core.NewXoshiro(uint64(ch.Draw("key-seed", 1<<16))).Fill(key)
		src, _ := sampling.NewKeyedPRNG(key)
		ctx.Event("ternary sampler with P=%g", pv)
		ctx.Count("probe.ternary-extreme-density", 1)
		ctx.Nontrivial = true
		smp, err := ring.NewSampler(src, r, ring.Ternary{P: pv}, false)
		if err != nil {
			ctx.Count("probe.extreme-density-refused", 1)
			return
		}
		var pol ring.Poly
		pk, site, msg := core.Protect(func() { pol = smp.ReadNew() })
		if pk {
			ctx.Fail("panic", "ternaryP|extreme-density", "ternary sampler with P=%g panicked in %s: %s", pv, site, msg)
			return
		}
		nz := 0
		for j := 0; j < N; j++ {
			c := pol.Coeffs[0][j]
			if c != 0 && c != 1 && c != r.SubRings[0].Modulus-1 {
				ctx.Fail("contract", "ternaryP|support", "ternary sampler with P=%g returned coefficient %d", pv, c)
				return
			}
			if c != 0 {
				nz++
			}
		}
		if pv < 0.5 && nz > N/4 || pv > 0.5 && nz < 3*N/4 {
			ctx.Fail("moments", "ternaryP|density", "ternary sampler with P=%g returned %d non-zero coefficients of %d", pv, nz, N)
		}
		return
	}
	// distribution
	var d c17Dist
	d.kind = ch.Weighted("dist", []int{3, 4, 3, 3})
	d.mont = ch.Bool("montgomery")
	switch d.kind {
	case 1:
		switch ch.Weighted("sigma-kind", []int{3, 3, 2, 2}) {
		case 0:
			d.sigma = 3.2
		case 1:
			d.sigma = 0.5 + float64(ch.Draw("sigma-small", 64))/4
		case 2:
			d.sigma = math.Exp2(float64(4 + ch.Draw("sigma-log", 48)))
		default:
			d.sigma = math.Exp2(float64(54 + ch.Draw("sigma-biglog", 17)))
		}
		ratio := []float64{6, 0.5, 1, 1.5, 2, 3, 4, 8}[ch.Draw("bound-ratio", 8)]
		d.bound = d.sigma * ratio
		if d.bound < 1 {
			d.bound = 1
		}
		d.big = d.sigma > 0x20000000000000 && d.bound > 0xffffffffffffffff
		if d.big {
			ctx.Count("probe.gaussian-big-number-path", 1)
		}
	case 2:
		switch ch.Draw("p-kind", 3) {
		case 0:
			d.p = 0.5
		case 1:
			d.p = 2.0 / 3.0
		default:
			d.p = float64(1+ch.Draw("p-val", 98)) / 100
		}
	case 3:
		d.h = 1 + ch.Draw("H", N)
		if d.h == N {
			ctx.Count("probe.hamming-weight-equals-N", 1)
		}
	}
	if d.kind == 0 {
		d.mont = false // the uniform sampler has no Montgomery variant (uniform is uniform)
	}
	// can the support be decided? need Q > 2*bound
	Q := r.ModulusAtLevel[L]
	decidable := true
	if d.kind == 1 {
		b2 := new(big.Float).SetFloat64(2*d.bound + 4)
		if new(big.Float).SetInt(Q).Cmp(b2) <= 0 {
			decidable = false
			ctx.Count("probe.gaussian-bound-exceeds-Q-support-skipped", 1)
		}
	}
	key := make([]byte, 32)
	core.NewXoshiro(uint64(ch.Draw("key", 1<<20))).Fill(key)
	// each side gets its own copy of the key; the caller's buffer of the system
	// side is wiped after construction in half of the runs (a generator must
	// not depend on the caller's slice after it has been keyed)
	keyA := append([]byte{}, key...)
	// the sampler is built over the ring, or over one of its level views (its own level views then go above it)
	rBase := r
	if L > 0 && ch.Chance("sampler-built-on-level-view", 1, 4) {
		rBase = r.AtLevel(ch.Draw("base-level", L))
		ctx.Count("probe.sampler-built-on-level-view", 1)
	}
	A := newC17Side(ctx, keyA, rBase, d)
	B := newC17Side(ctx, append([]byte{}, key...), rBase, d)
	if ch.Chance("short-reads-from-source", 1, 3) {
		// the system's source delivers its bytes in pieces (a legal io.Reader); the twin's in one piece
		sg := core.NewXoshiro(uint64(ch.Draw("short-read-seed", 1<<16)))
		mode := ch.Draw("short-read-mode", 3)
		A.rec.short = func() int {
			switch mode {
			case 0:
				return 1 + int(sg.Next()%7)
			case 1:
				return 1 + int(sg.Next()%1000)
			default:
				return 1000
			}
		}
		ctx.Count("fault.short-reads-from-source", 1)
	}
	if ch.Bool("wipe-caller-key") {
		for i := range keyA {
			keyA[i] = 0xA5
		}
		ctx.Count("fault.caller-key-buffer-wiped", 1)
	}
	ctx.Event("config %s dist=%s", spec, d)

	nsteps := 4 + ch.Draw("nsteps", 47)
	var hist []c17Step
	var outs [][]byte // canonical bytes of every output of the first pass
	stats := &c17Stats{}
	seen := map[string]int{}
	entropyOK := d.kind == 0 || N >= 128 && (d.kind != 1 || d.sigma >= 2) && (d.kind != 3 || d.h >= 32) && (d.kind != 2 || d.p >= 0.1 && d.p <= 0.9)
	nAdd, nViewCalls := 0, 0
	for s := 0; s < nsteps; s++ {
		st := c17Step{}
		st.op = ch.Weighted("op", []int{4, 3, 3, 2})
		if st.op == 3 {
			st.from = ch.Draw("from-view", len(A.views))
			st.level = ch.Draw("level", L+1)
		} else {
			st.view = ch.Draw("view", len(A.views))
		}
		hist = append(hist, st)
		out, ok := p.step(ctx, r, d, A, B, st, s, stats, decidable)
		if !ok {
			return
		}
		if st.op == 2 {
			nAdd++
		}
		if st.op != 3 && st.view > 0 {
			nViewCalls++
		}
		outs = append(outs, out)
		if out != nil && entropyOK && st.op != 2 {
			// freshness: no polynomial of the run repeats, nor its first half
			ctx.Count("oracle.freshness", 1)
			full := string(out)
			half := "h" + string(out[:len(out)/2])
			if prev, dup := seen[full]; dup {
				ctx.Fail("freshness", d.kindName()+"|repeated-polynomial", "step %d produced the same polynomial as step %d (%s)", s, prev, d)
				return
			}
			if prev, dup := seen[half]; dup {
				ctx.Fail("freshness", d.kindName()+"|repeated-half", "step %d shares its first half with step %d (%s): reused random bytes", s, prev, d)
				return
			}
			seen[full], seen[half] = s, s
		}
	}
	if nAdd > 0 || nViewCalls > 0 && len(A.views) > 2 {
		ctx.Nontrivial = true
	}
	if len(A.views) > 2 {
		ctx.Count("probe.histories-with-3+-views", 1)
	}
	if A.rec.bytes != B.rec.bytes || A.rec.short == nil && A.rec.calls != B.rec.calls {
		ctx.Fail("twin", d.kindName()+"|source-consumption", "same key and same calls, but the system drew %d bytes in %d reads and the twin %d bytes in %d reads", A.rec.bytes, A.rec.calls, B.rec.bytes, B.rec.calls)
		return
	}
	ctx.Steps += int64(nsteps)

	// reset-and-replay: the generator is reset, sampler and views are rebuilt
	// in the same order, the history replayed: bit-identical outputs.
	A.src.Reset()
	A.rec.bytes, A.rec.calls = 0, 0
	smp, err := ring.NewSampler(A.rec, rBase, d.params(), d.mont)
	if err != nil {
		ctx.Harness("NewSampler: %v", err)
	}
	A.views = []ring.Sampler{smp}
	A.lvls = []int{rBase.Level()}
	ctx.Count("oracle.reset-replay", 1)
	var acc = map[int]*ring.Poly{}
	_ = acc
	for s, st := range hist {
		out := p.replayStep(ctx, r, d, A, st, s)
		if st.op == 3 {
			continue
		}
		if !bytes.Equal(out, outs[s]) {
			ctx.Fail("reset-replay", d.kindName()+"|"+c17OpNames[st.op]+"|differs", "after Reset the replayed history differs from the first pass at step %d (%s on view %d)", s, c17OpNames[st.op], st.view)
			return
		}
	}
	// raw stream replay
	{
		// a key of any accepted length (the generator's own NewPRNG draws 64 bytes; callers append identifiers to
		// a common seed): the run's key, cut or extended
		rawKey := make([]byte, 1+ch.Draw("raw-key-len", 64))
		core.NewXoshiro(core.HashString(string(key))).Fill(rawKey)
		copy(rawKey, key)
		if len(rawKey) > 32 {
			ctx.Count("probe.key-longer-than-32-bytes", 1)
		}
		kbuf := append([]byte{}, rawKey...)
		k1, err := sampling.NewKeyedPRNG(kbuf)
		if err != nil {
			ctx.Harness("NewKeyedPRNG with a key of %d bytes: %v", len(kbuf), err)
		}
		b1 := make([]byte, 1+ch.Draw("raw-len", 3000))
		k1.Read(b1)
		if ch.Bool("raw-wipe-caller-key") {
			for i := range kbuf {
				kbuf[i] ^= 0x5A
			}
		}
		k1.Reset()
		b2 := make([]byte, len(b1))
		// read in two pieces: the stream must not depend on how it is cut
		cut := ch.Draw("raw-cut", len(b1)+1)
		k1.Read(b2[:cut])
		k1.Read(b2[cut:])
		ctx.Count("oracle.raw-stream-reset", 1)
		if !bytes.Equal(b1, b2) {
			ctx.Fail("reset-replay", "KeyedPRNG|raw-stream", "KeyedPRNG: %d bytes read, Reset, read again as %d+%d bytes: streams differ", len(b1), cut, len(b1)-cut)
			return
		}
		// Key(): documented to return the key from which a new generator produces the same stream
		k1.Reset()
		kk, _ := sampling.NewKeyedPRNG(k1.Key())
		b4 := make([]byte, len(b1))
		kk.Read(b4)
		ctx.Count("oracle.key-accessor", 1)
		if !bytes.Equal(b1, b4) {
			ctx.Fail("reset-replay", "KeyedPRNG|key-accessor", "NewKeyedPRNG(p.Key()) does not reproduce the stream of p (Key() returned %d bytes)", len(k1.Key()))
			return
		}
		// distinct key: unrelated stream
		rawKey2 := append([]byte{}, rawKey...)
		flipAt := ch.Draw("raw-key-flip-byte", len(rawKey2))
		rawKey2[flipAt] ^= 1 << uint(ch.Draw("key-flip-bit", 8))
		k2, _ := sampling.NewKeyedPRNG(rawKey2)
		b3 := make([]byte, len(b1))
		k2.Read(b3)
		ctx.Count("oracle.distinct-key", 1)
		if len(b1) >= 16 && bytes.Equal(b1[:16], b3[:16]) {
			ctx.Fail("distinct-key", "KeyedPRNG|same-stream", "two keys of %d bytes differing in one bit of byte %d give the same first 16 bytes", len(rawKey), flipAt)
			return
		}
		key2 := append([]byte{}, key...)
		key2[ch.Draw("key-flip-byte", 32)] ^= 1 << uint(ch.Draw("key-flip-bit-2", 8))
		if entropyOK {
			C := newC17Side(ctx, key2, rBase, d)
			pa := newC17Side(ctx, key, rBase, d).views[0].ReadNew()
			pc := C.views[0].ReadNew()
			if pa.Equal(&pc) {
				ctx.Fail("distinct-key", d.kindName()+"|same-polynomial", "samplers keyed with different keys produced the same first polynomial")
				return
			}
		}
	}
	p.endStats(ctx, d, stats, r)
	if ch.Chance("qp-and-expand", 1, 3) {
		p.qpAndExpand(ctx, params, key)
	}
	if ch.Chance("seeded-encryption", 1, 4) {
		p.seededEncryption(ctx, params, key)
	}
	if ch.Chance("largest-ring-sparse-positions", 1, 150) {
		p.largestRingPositions(ctx, key)
	}
}

// largestRingPositions: the fixed-weight ternary sampler in the ring of the largest degree the library admits
// (2^17, where the index of a position needs more than 16 bits): the non-zero coefficients fall everywhere.
func (p c17) largestRingPositions(ctx *core.RunCtx, key []byte) {
	c := ctx.Cached("c17/ring-2^17", func(*core.Xoshiro) any {
		g := ring.NewNTTFriendlyPrimesGenerator(30, 1<<18)
		q, err := g.NextAlternatingPrime()
		if err != nil {
			return err
		}
		r, err := ring.NewRing(1<<17, []uint64{q})
		if err != nil {
			return err
		}
		return r
	})
	r, ok := c.(*ring.Ring)
	if !ok {
		ctx.Harness("ring of degree 2^17: %v", c)
	}
	H := 2048 << uint(ctx.Ch.Draw("largest-ring-weight", 3))
	prng, _ := sampling.NewKeyedPRNG(key)
	s, err := ring.NewSampler(prng, r, ring.Ternary{H: H}, false)
	if err != nil {
		ctx.Harness("sampler: %v", err)
	}
	pol := s.ReadNew()
	ctx.Count("oracle.positions-of-the-non-zeros", 1)
	var quarters [4]int
	nz := 0
	for j, v := range pol.Coeffs[0] {
		if v != 0 {
			nz++
			quarters[j>>15]++
		}
	}
	if nz != H {
		ctx.Fail("contract", "ternaryH|ReadNew|weight", "ring of degree 2^17: %d non-zero coefficients for H=%d", nz, H)
		return
	}
	sd := math.Sqrt(float64(H) * 3 / 16)
	for k, n := range quarters {
		if math.Abs(float64(n)-float64(H)/4) > 8*sd+1 {
			ctx.Fail("moments", "ternaryH|positions", "ring of degree 2^17, H=%d: the quarters of the polynomial hold %v non-zero coefficients (expected %d each, standard deviation %.1f): quarter %d is off by more than 8 of them", H, quarters, H/4, sd, k)
			return
		}
	}
}

// seededEncryption: a secret-key encryptor bound to a keyed generator (WithPRNG) takes the public component of each
// ciphertext from it: one uniform polynomial at the level of the ciphertext per encryption. A party holding the same
// key and performing the same sequence of reads (a twin sampler) obtains the same components - this is how a
// receiver of degree 0 (the ciphertext without its public component) is completed on the other side.
func (p c17) seededEncryption(ctx *core.RunCtx, params rlwe.Parameters, key []byte) {
	ch := ctx.Ch
	kgen := rlwe.NewKeyGenerator(params)
	sk := kgen.GenSecretKeyNew()
	k1, _ := sampling.NewKeyedPRNG(key)
	k2, _ := sampling.NewKeyedPRNG(key)
	enc := rlwe.NewEncryptor(params, sk).WithPRNG(k1)
	twin := ring.NewUniformSampler(k2, params.RingQ())
	n := 2 + ch.Draw("seeded-enc-steps", 5)
	for i := 0; i < n; i++ {
		level := ch.Draw("seeded-enc-level", params.MaxLevelQ()+1)
		deg := ch.Draw("seeded-enc-degree", 2)
		ct := rlwe.NewCiphertext(params, deg, level)
		if ch.Chance("seeded-enc-other-domain", 1, 4) {
			ct.IsNTT = !ct.IsNTT
		}
		var err error
		pk, site, msg := core.Protect(func() { err = enc.EncryptZero(ct) })
		if pk || err != nil {
			ctx.Fail("panic", "Encryptor.WithPRNG|EncryptZero", "EncryptZero (degree %d, level %d) with a bound generator failed: panic=%v %s %s err=%v", deg, level, pk, site, msg, err)
			return
		}
		rq := params.RingQ().AtLevel(level)
		c1 := rq.NewPoly()
		twin.AtLevel(level).Read(c1)
		ctx.Count("oracle.seeded-encryption-twin", 1)
		if deg == 1 {
			if !ct.Value[1].Equal(&c1) {
				ctx.Fail("twin", "Encryptor.WithPRNG|public-component-differs", "encryption #%d (degree 1, level %d) of an encryptor bound to a keyed generator: the public component is not the polynomial a sampler with the same key reads at that point of the sequence", i, level)
				return
			}
			continue
		}
		// degree 0: c0 + c1*s is the error, a small polynomial, when c1 is what the encryptor used
		c0 := ct.Value[0].CopyNew()
		a := c1.CopyNew()
		if !ct.IsNTT {
			rq.NTT(*a, *a)
			rq.NTT(*c0, *c0)
		}
		rq.MulCoeffsMontgomeryThenAdd(*a, sk.Value.Q, *c0)
		rq.INTT(*c0, *c0)
		if rq.ModulusAtLevel[level].BitLen() < 12 {
			continue
		}
		coeffs := make([]*big.Int, rq.N())
		for j := range coeffs {
			coeffs[j] = new(big.Int)
		}
		rq.PolyToBigintCentered(*c0, 1, coeffs)
		for j := range coeffs {
			if coeffs[j].CmpAbs(big.NewInt(64)) > 0 {
				ctx.Fail("twin", "Encryptor.WithPRNG|compressed-ciphertext-not-completed", "encryption #%d (degree 0, level %d): completed with the polynomial a sampler with the same key reads at that point of the sequence, the ciphertext does not decrypt to zero (coefficient %d of c0 + c1*s is %s)", i, level, j, coeffs[j].String())
				return
			}
		}
	}
}

func (d c17Dist) kindName() string {
	return []string{"uniform", "gaussian", "ternaryP", "ternaryH"}[d.kind]
}

func polyBytes(p ring.Poly) []byte {
	var b bytes.Buffer
	for _, row := range p.Coeffs {
		for _, c := range row {
			var w [8]byte
			for i := 0; i < 8; i++ {
				w[i] = byte(c >> (8 * i))
			}
			b.Write(w[:])
		}
	}
	return b.Bytes()
}

// step executes one history step on system and twin and checks the oracles.
func (p c17) step(ctx *core.RunCtx, r *ring.Ring, d c17Dist, A, B *c17Side, st c17Step, s int, stats *c17Stats, decidable bool) ([]byte, bool) {
	if st.op == 3 {
		var va, vb ring.Sampler
		pk, site, msg := core.Protect(func() {
			va = A.views[st.from].AtLevel(st.level)
			vb = B.views[st.from].AtLevel(st.level)
		})
		if pk {
			ctx.Fail("panic", d.kindName()+"|AtLevel", "AtLevel(%d) panicked in %s: %s", st.level, site, msg)
			return nil, false
		}
		A.views, B.views = append(A.views, va), append(B.views, vb)
		A.lvls, B.lvls = append(A.lvls, st.level), append(B.lvls, st.level)
		ctx.Event("step %d view%d=view%d.AtLevel(%d)", s, len(A.views)-1, st.from, st.level)
		return nil, true
	}
	lvl := A.lvls[st.view]
	rl := r.AtLevel(lvl)
	var pa, pb, before ring.Poly
	switch st.op {
	case 0:
		pa, pb = rl.NewPoly(), rl.NewPoly()
		// dirty output: Read must overwrite everything
		g := core.NewXoshiro(uint64(s) + 77)
		catalog.FillPoly(rl, pa, g)
		catalog.FillPoly(rl, pb, core.NewXoshiro(uint64(s)+991))
	case 2:
		var small bool
		pa, small = c17AddReceiver(rl, d, s)
		if small {
			ctx.Count("probe.read-and-add-onto-small-values", 1)
		}
		pb = *pa.CopyNew()
		before = *pa.CopyNew()
	}
	pk, site, msg := core.Protect(func() {
		switch st.op {
		case 0:
			A.views[st.view].Read(pa)
			B.views[st.view].Read(pb)
		case 1:
			pa = A.views[st.view].ReadNew()
			pb = B.views[st.view].ReadNew()
		case 2:
			A.views[st.view].ReadAndAdd(pa)
			B.views[st.view].ReadAndAdd(pb)
		}
	})
	if pk {
		ctx.Fail("panic", d.kindName()+"|"+c17OpNames[st.op], "%s on view %d (level %d) panicked in %s: %s", c17OpNames[st.op], st.view, lvl, site, msg)
		return nil, false
	}
	ctx.Count("oracle.twin", 1)
	out := polyBytes(pa)
	ctx.Event("step %d %s view%d level=%d out=%x", s, c17OpNames[st.op], st.view, lvl, core.HashString(string(out)))
	if pa.Level() != lvl {
		ctx.Fail("contract", d.kindName()+"|"+c17OpNames[st.op]+"|level", "output has level %d, view is at level %d", pa.Level(), lvl)
		return nil, false
	}
	if !bytes.Equal(out, polyBytes(pb)) {
		ctx.Fail("twin", d.kindName()+"|"+c17OpNames[st.op]+"|differs", "twin sampler (same key, same call sequence) differs at step %d: %s on view %d level %d (%s)", s, c17OpNames[st.op], st.view, lvl, d)
		return nil, false
	}
	// the sample itself: for ReadAndAdd the difference with the previous content
	sample := pa
	if st.op == 2 {
		sample = rl.NewPoly()
		for i := range sample.Coeffs {
			q := rl.SubRings[i].Modulus
			for j := range sample.Coeffs[i] {
				a, b := pa.Coeffs[i][j], before.Coeffs[i][j]
				if a > q || a == q && strings.HasPrefix(d.kindName(), "ternary") {
					// (for the Gaussian sampler q itself is tolerated as a lazy representative of 0, section 14)
					ctx.Fail("contract", d.kindName()+"|ReadAndAdd|unreduced", "ReadAndAdd left coefficient %d, not below q_%d=%d", a, i, q)
					return nil, false
				}
				sample.Coeffs[i][j] = (a%q + q - b) % q
			}
		}
	}
	if d.mont {
		t := rl.NewPoly()
		rl.IMForm(sample, t)
		sample = t
	}
	if !p.support(ctx, rl, d, sample, c17OpNames[st.op], stats, decidable, st.op != 2) {
		return nil, false
	}
	return out, true
}

func (p c17) replayStep(ctx *core.RunCtx, r *ring.Ring, d c17Dist, A *c17Side, st c17Step, s int) []byte {
	if st.op == 3 {
		A.views = append(A.views, A.views[st.from].AtLevel(st.level))
		A.lvls = append(A.lvls, st.level)
		return nil
	}
	lvl := A.lvls[st.view]
	rl := r.AtLevel(lvl)
	var pa ring.Poly
	switch st.op {
	case 0:
		pa = rl.NewPoly()
		A.views[st.view].Read(pa)
	case 1:
		pa = A.views[st.view].ReadNew()
	case 2:
		pa, _ = c17AddReceiver(rl, d, s)
		A.views[st.view].ReadAndAdd(pa)
	}
	return polyBytes(pa)
}

// c17AddReceiver: what step s adds onto (a function of s: the replayed pass builds the same): uniform residues, or
// a small polynomial (what a sampler of the same kind leaves), so that sums that meet the modulus exactly occur.
func c17AddReceiver(rl *ring.Ring, d c17Dist, s int) (pa ring.Poly, small bool) {
	pa = rl.NewPoly()
	gg := core.NewXoshiro(uint64(s)*31 + 5)
	if gg.Next()%2 == 0 {
		catalog.FillPoly(rl, pa, gg)
		return pa, false
	}
	for j := 0; j < rl.N(); j++ {
		v := int64(gg.Next()%5) - 2
		for i := range pa.Coeffs {
			q := rl.SubRings[i].Modulus
			if v >= 0 {
				pa.Coeffs[i][j] = uint64(v) % q
			} else {
				pa.Coeffs[i][j] = q - uint64(-v)%q
			}
		}
	}
	if d.mont {
		rl.MForm(pa, pa)
	}
	return pa, true
}

// support checks the declared support and cross-modulus consistency of one sample.
func (p c17) support(ctx *core.RunCtx, rl *ring.Ring, d c17Dist, sample ring.Poly, op string, stats *c17Stats, decidable bool, accumulate bool) bool {
	N := rl.N()
	ctx.Count("oracle.support", 1)
	cls := d.kindName() + "|" + op
	if d.kind == 0 {
		for i, row := range sample.Coeffs {
			q := rl.SubRings[i].Modulus
			for j, c := range row {
				if c >= q {
					ctx.Fail("contract", cls+"|range", "uniform residue %d at [%d][%d] is not below q=%d", c, i, j, q)
					return false
				}
				if accumulate {
					stats.unifSum += float64(c) / float64(q)
					stats.unifN++
				}
			}
		}
		return true
	}
	// the support is decidable only if the modulus at this level exceeds twice the bound
	if d.kind == 1 {
		b2 := new(big.Float).SetFloat64(2*d.bound + 4)
		if new(big.Float).SetInt(rl.ModulusAtLevel[rl.Level()]).Cmp(b2) <= 0 {
			decidable = false
			ctx.Count("probe.gaussian-bound-exceeds-Q-support-skipped", 1)
		}
	}
	// one integer vector across all moduli: reconstruct centred, then verify row by row
	vals := make([]*big.Int, N)
	for i := range vals {
		vals[i] = new(big.Int)
	}
	rl.PolyToBigintCentered(sample, 1, vals)
	var boundInt *big.Int
	if d.kind == 1 {
		boundInt, _ = new(big.Float).SetFloat64(math.Floor(d.bound + 0.5)).Int(nil)
	} else {
		boundInt = big.NewInt(1)
	}
	tmp := new(big.Int)
	nz := 0
	for j, x := range vals {
		if decidable && x.CmpAbs(boundInt) > 0 {
			ctx.Fail("contract", cls+"|support", "coefficient %d reconstructs to %s, outside the declared support |x| <= %s (%s)", j, x.String(), boundInt.String(), d)
			return false
		}
		for i := range sample.Coeffs {
			q := new(big.Int).SetUint64(rl.SubRings[i].Modulus)
			tmp.Mod(x, q)
			// residues are compared canonically: a lazily reduced representative
			// (q standing for 0) denotes the same ring element
			if tmp.Uint64() != sample.Coeffs[i][j]%rl.SubRings[i].Modulus {
				ctx.Fail("contract", cls+"|cross-modulus", "coefficient %d: row %d holds %d but the centred value %s is %s mod q_%d", j, i, sample.Coeffs[i][j], x.String(), tmp.String(), i)
				return false
			}
		}
		if x.Sign() != 0 {
			nz++
		}
		if accumulate && decidable {
			f, _ := new(big.Float).SetInt(x).Float64()
			stats.n++
			stats.sum += f
			stats.sumsq += f * f
			if x.Sign() != 0 {
				stats.nonzero++
			}
			if x.Sign() > 0 {
				stats.pos++
			}
			if j > 0 {
				switch vals[j-1].Sign() {
				case 1:
					stats.afterPos++
					if x.Sign() == 0 {
						stats.afterPosZero++
					}
				case -1:
					stats.afterNeg++
					if x.Sign() == 0 {
						stats.afterNegZero++
					}
				}
			}
		}
	}
	if d.kind == 3 {
		want := d.h
		if want > N {
			want = N
		}
		if nz != want {
			ctx.Fail("contract", cls+"|hamming-weight", "ternary sample with H=%d has %d non-zero coefficients (N=%d)", d.h, nz, N)
			return false
		}
	}
	return true
}

// endStats evaluates the run's accumulated moments inside wide bands.
func (p c17) endStats(ctx *core.RunCtx, d c17Dist, st *c17Stats, r *ring.Ring) {
	const minN = 2000
	switch d.kind {
	case 0:
		if st.unifN < minN {
			return
		}
		ctx.Count("oracle.moments", 1)
		mean := st.unifSum / st.unifN
		se := math.Sqrt(1.0 / 12 / st.unifN)
		if math.Abs(mean-0.5) > 8*se+1e-6 {
			ctx.Fail("moments", "uniform|mean", "mean of residue/q over %.0f coefficients is %.5f (expected 0.5 +- %.5f)", st.unifN, mean, 8*se)
		}
	case 1:
		if st.n < minN {
			return
		}
		ctx.Count("oracle.moments", 1)
		b := d.bound / d.sigma
		// truncated normal variance
		phi := math.Exp(-b*b/2) / math.Sqrt(2*math.Pi)
		Z := math.Erf(b / math.Sqrt2)
		vt := d.sigma * d.sigma * (1 - 2*b*phi/Z)
		if d.sigma < 64 {
			// exact variance of round(|v|) for |v| half-normal truncated at bound
			cdf := func(x float64) float64 { return math.Erf(x / d.sigma / math.Sqrt2) }
			tot := cdf(d.bound)
			vt = 0
			for k := 1.0; k-0.5 <= d.bound; k++ {
				lo, hi := k-0.5, math.Min(k+0.5, d.bound)
				vt += k * k * (cdf(hi) - cdf(lo)) / tot
			}
		}
		mean := st.sum / st.n
		vr := st.sumsq/st.n - mean*mean
		seMean := math.Sqrt(vt / st.n)
		if math.Abs(mean) > 8*seMean+0.51 {
			ctx.Fail("moments", "gaussian|mean", "mean over %.0f coefficients is %g (sigma %g, 8 standard errors = %g)", st.n, mean, d.sigma, 8*seMean)
			return
		}
		// relative standard error of a variance estimate is sqrt((kurt-1)/n) <= sqrt(2/n) for (truncated) normals
		rel := 8*math.Sqrt(2/st.n) + 0.04
		if d.sigma < 2 {
			rel += 0.25 // discretisation of very narrow distributions
		}
		if vr < vt*(1-rel) || vr > vt*(1+rel) {
			ctx.Fail("moments", "gaussian|variance", "empirical variance %g over %.0f coefficients, expected %g (sigma %g truncated at %g) within +-%.0f%%", vr, st.n, vt, d.sigma, d.bound, rel*100)
			return
		}
		if st.nonzero > 100 {
			sb := st.pos / st.nonzero
			if math.Abs(sb-0.5) > 8*0.5/math.Sqrt(st.nonzero) {
				ctx.Fail("moments", "gaussian|sign-balance", "fraction of positive among %.0f non-zero coefficients is %.4f", st.nonzero, sb)
			}
		}
	case 2:
		if st.n < minN {
			return
		}
		ctx.Count("oracle.moments", 1)
		dens := st.nonzero / st.n
		se := math.Sqrt(d.p * (1 - d.p) / st.n)
		if math.Abs(dens-d.p) > 8*se+0.002 {
			ctx.Fail("moments", "ternaryP|density", "density of non-zero coefficients %.4f over %.0f coefficients, declared P=%.4f (8 standard errors = %.4f)", dens, st.n, d.p, 8*se)
			return
		}
		if st.nonzero > 100 {
			sb := st.pos / st.nonzero
			if math.Abs(sb-0.5) > 8*0.5/math.Sqrt(st.nonzero) {
				ctx.Fail("moments", "ternaryP|sign-balance", "fraction of +1 among %.0f non-zero coefficients is %.4f", st.nonzero, sb)
				return
			}
		}
		// coefficients are independent: whether a zero follows does not depend on the sign before it
		if st.afterPos >= 300 && st.afterNeg >= 300 && d.p > 0.05 && d.p < 0.95 {
			ctx.Count("oracle.serial-independence", 1)
			zp, zn := st.afterPosZero/st.afterPos, st.afterNegZero/st.afterNeg
			se := math.Sqrt((1 - d.p) * d.p * (1/st.afterPos + 1/st.afterNeg))
			if math.Abs(zp-zn) > 8*se+0.01 {
				ctx.Fail("moments", "ternaryP|serial-dependence", "a zero follows a +1 with frequency %.3f (%.0f cases) and a -1 with frequency %.3f (%.0f cases); independent coefficients give %.3f for both (P=%.4f, 8 standard errors = %.3f)", zp, st.afterPos, zn, st.afterNeg, 1-d.p, d.p, 8*se)
				return
			}
		}
	case 3:
		if st.nonzero > 400 {
			ctx.Count("oracle.moments", 1)
			sb := st.pos / st.nonzero
			if math.Abs(sb-0.5) > 8*0.5/math.Sqrt(st.nonzero) {
				ctx.Fail("moments", "ternaryH|sign-balance", "fraction of +1 among %.0f non-zero coefficients is %.4f", st.nonzero, sb)
			}
		}
	}
}

// qpAndExpand: the QP uniform sampler with level views and re-keyed copies,
// and the expansion of a compressed evaluation key against a twin sampler.
func (p c17) qpAndExpand(ctx *core.RunCtx, params rlwe.Parameters, key []byte) {
	ch := ctx.Ch
	rqp := *params.RingQP()
	mk := func() (*sampling.KeyedPRNG, ringqp.UniformSampler) {
		k, _ := sampling.NewKeyedPRNG(key)
		return k, ringqp.NewUniformSampler(k, rqp)
	}
	_, sa := mk()
	_, sb := mk()
	n := 2 + ch.Draw("qp-steps", 8)
	for s := 0; s < n; s++ {
		lq := ch.Draw("qp-levelQ", params.MaxLevelQ()+1)
		lp := params.MaxLevelP()
		if lp >= 0 {
			lp = ch.Draw("qp-levelP", lp+2) - 1
		}
		var pa, pb ringqp.Poly
		pk, site, msg := core.Protect(func() {
			va, vb := sa.AtLevel(lq, lp), sb.AtLevel(lq, lp)
			if ch.Bool("qp-readnew") {
				pa, pb = va.ReadNew(), vb.ReadNew()
			} else {
				pa, pb = rqp.AtLevel(lq, lp).NewPoly(), rqp.AtLevel(lq, lp).NewPoly()
				va.Read(pa)
				vb.Read(pb)
			}
		})
		if pk {
			ctx.Fail("panic", "ringqp.UniformSampler", "AtLevel(%d,%d) read panicked in %s: %s", lq, lp, site, msg)
			return
		}
		ctx.Count("oracle.twin-qp", 1)
		ctx.Event("qp step %d levels=(%d,%d)", s, lq, lp)
		if !pa.Equal(&pb) {
			ctx.Fail("twin", "ringqp.UniformSampler|differs", "twin QP samplers differ at step %d (levels %d,%d)", s, lq, lp)
			return
		}
		if pa.Q.Level() != lq || pa.P.Level() != lp {
			ctx.Fail("contract", "ringqp.UniformSampler|level", "AtLevel(%d,%d) produced levels (%d,%d)", lq, lp, pa.Q.Level(), pa.P.Level())
			return
		}
		for i, row := range pa.Q.Coeffs {
			q := rqp.RingQ.SubRings[i].Modulus
			for _, c := range row {
				if c >= q {
					ctx.Fail("contract", "ringqp.UniformSampler|range", "residue %d not below q_%d", c, i)
					return
				}
			}
		}
		if lp >= 0 {
			for i, row := range pa.P.Coeffs {
				q := rqp.RingP.SubRings[i].Modulus
				for _, c := range row {
					if c >= q {
						ctx.Fail("contract", "ringqp.UniformSampler|range", "residue %d not below p_%d", c, i)
						return
					}
				}
			}
		}
	}
	// WithPRNG: a re-keyed copy follows the new key from its start; also of a level view, and of the view without
	// a Q part (levelQ = -1, which AtLevel, Read and ReadNew accept)
	{
		k2, _ := sampling.NewKeyedPRNG(key)
		src, fresh := sa, ringqp.UniformSampler{}
		_, fresh = mk()
		if params.MaxLevelP() >= 0 && ch.Chance("qp-withprng-on-view", 1, 2) {
			lq := ch.Draw("qp-view-levelQ", params.MaxLevelQ()+2) - 1
			src, fresh = sa.AtLevel(lq, params.MaxLevelP()), fresh.AtLevel(lq, params.MaxLevelP())
			ctx.Count("probe.withprng-on-level-view", 1)
		}
		var cp ringqp.UniformSampler
		pk, site, msg := core.Protect(func() { cp = src.WithPRNG(k2) })
		if pk {
			ctx.Fail("panic", "ringqp.UniformSampler.WithPRNG", "WithPRNG on a level view panicked in %s: %s", site, msg)
			return
		}
		x, y := cp.ReadNew(), fresh.ReadNew()
		ctx.Count("oracle.twin-qp", 1)
		if !x.Equal(&y) {
			ctx.Fail("twin", "ringqp.UniformSampler.WithPRNG|differs", "a sampler re-keyed with WithPRNG(k) does not reproduce the stream of a new sampler on k")
			return
		}
	}
	// compressed key: Expand must reproduce the mask a twin sampler derives from the stored seed
	kgen := rlwe.NewKeyGenerator(params)
	skIn, skOut := kgen.GenSecretKeyNew(), kgen.GenSecretKeyNew()
	lq := ch.Draw("evk-levelQ", params.MaxLevelQ()+1)
	lp := params.MaxLevelP()
	if lp >= 0 {
		lp = ch.Draw("evk-levelP", lp+1)
	}
	b2 := 0
	if ch.Bool("evk-base2") {
		b2 = 1 + ch.Draw("evk-base2-val", 30)
	}
	var evk *rlwe.EvaluationKey
	pk, site, msg := core.Protect(func() {
		evk = kgen.GenEvaluationKeyNew(skIn, skOut, rlwe.EvaluationKeyParameters{LevelQ: &lq, LevelP: &lp, BaseTwoDecomposition: &b2, Compressed: true})
	})
	if pk {
		ctx.Fail("panic", "compressed-key|generate", "generating a compressed key (levelQ=%d levelP=%d base2=%d) panicked in %s: %s", lq, lp, b2, site, msg)
		return
	}
	if evk.Seed == nil {
		ctx.Fail("contract", "compressed-key|seed-missing", "compressed key has no seed")
		return
	}
	// two key generators bound (WithPRNG) to generators with one key: the public randomness of their keys - the
	// uniform components of a key, the seed of a compressed one - is the same
	{
		mkGen := func() *rlwe.KeyGenerator {
			kp, _ := sampling.NewKeyedPRNG(key)
			return rlwe.NewKeyGenerator(params).WithPRNG(kp)
		}
		var ka, kb [2]*rlwe.EvaluationKey
		for c, compressed := range []bool{false, true} {
			evp := rlwe.EvaluationKeyParameters{LevelQ: &lq, LevelP: &lp, BaseTwoDecomposition: &b2, Compressed: compressed}
			ka[c] = mkGen().GenEvaluationKeyNew(skIn, skOut, evp)
			kb[c] = mkGen().GenEvaluationKeyNew(skIn, skOut, evp)
		}
		ctx.Count("oracle.bound-key-generators-agree", 1)
		for i := range ka[0].Value {
			for j := range ka[0].Value[i] {
				if !ka[0].Value[i][j][1].Equal(&kb[0].Value[i][j][1]) {
					ctx.Fail("twin", "KeyGenerator.WithPRNG|uniform-component-differs", "two key generators bound to generators with the same key produced keys with different uniform components ([%d][%d])", i, j)
					return
				}
			}
		}
		if ka[1].Seed == nil || kb[1].Seed == nil || *ka[1].Seed != *kb[1].Seed {
			ctx.Fail("twin", "KeyGenerator.WithPRNG|compressed-key-seed-differs", "two key generators bound to generators with the same key produced compressed keys with different seeds: the seed (which stands for the uniform components) does not come from the bound generator")
			return
		}
	}
	first := evk.CopyNew()
	first.Seed = evk.Seed
	e1 := *evk
	e1.Value = cloneGadgetRows(evk)
	if err := e1.Expand(params, nil); err != nil {
		ctx.Fail("contract", "compressed-key|expand-error", "Expand failed: %v", err)
		return
	}
	e2 := *evk
	e2.Value = cloneGadgetRows(evk)
	var buf *rlwe.GadgetCiphertext
	if ch.Bool("expand-with-buffer") {
		buf = rlwe.NewGadgetCiphertext(params, 0, lq, lp, b2)
	}
	if err := e2.Expand(params, buf); err != nil {
		ctx.Fail("contract", "compressed-key|expand-error", "Expand(buffer) failed: %v", err)
		return
	}
	tw, _ := sampling.NewKeyedPRNG((*evk.Seed)[:])
	ts := ringqp.NewUniformSampler(tw, rqp).AtLevel(lq, lp)
	ctx.Count("oracle.compressed-key-expansion", 1)
	ctx.Event("expand levelQ=%d levelP=%d base2=%d rows=%v", lq, lp, b2, evk.BaseTwoDecompositionVectorSize())
	for i := range e1.Value {
		for j := range e1.Value[i] {
			if len(e1.Value[i][j]) != 2 {
				ctx.Fail("contract", "compressed-key|expand-shape", "expanded key component [%d][%d] has %d polynomials", i, j, len(e1.Value[i][j]))
				return
			}
			a := ts.ReadNew()
			if !e1.Value[i][j][1].Equal(&a) {
				ctx.Fail("twin", "compressed-key|mask-differs", "expanded key mask [%d][%d] differs from the stream of a sampler keyed with the stored seed", i, j)
				return
			}
			if !e1.Value[i][j][1].Equal(&e2.Value[i][j][1]) || !e1.Value[i][j][0].Equal(&e2.Value[i][j][0]) {
				ctx.Fail("twin", "compressed-key|expand-not-idempotent", "two expansions of one compressed key differ at [%d][%d]", i, j)
				return
			}
			if !e1.Value[i][j][0].Equal(&first.Value[i][j][0]) {
				ctx.Fail("contract", "compressed-key|body-changed", "Expand changed the stored component [%d][%d]", i, j)
				return
			}
		}
	}
}

func cloneGadgetRows(evk *rlwe.EvaluationKey) (m [][]rlwe.VectorQP) {
	m = make([][]rlwe.VectorQP, len(evk.Value))
	for i := range m {
		m[i] = make([]rlwe.VectorQP, len(evk.Value[i]))
		for j := range m[i] {
			m[i][j] = append(rlwe.VectorQP{}, evk.Value[i][j]...)
		}
	}
	return
}
