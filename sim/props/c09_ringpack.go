package props

import (
	"fmt"
	"sort"

	"github.com/tuneinsight/lattigo/v6/core/rlwe"

	"verifsim/catalog"
	"verifsim/core"
)

// C09, ring packing: one long-lived rlwe.RingPackingEvaluator splits, merges and extracts over rings of
// different degree, with receivers that are new or were used before (other level, content and metadata) and
// scratch poisoning between the steps; every step is mirrored by a new evaluator on copies with new receivers.

func c09RingPackRun(ctx *core.RunCtx) {
	ch := ctx.Ch
	cc := c10RPContext(ctx)
	g := core.NewXoshiro(uint64(ch.Draw("content-seed", 1<<20)))
	logN := cc.params.LogN()
	pOf := func(ct *rlwe.Ciphertext) rlwe.Parameters { return *cc.evk.Parameters[ct.LogN()].GetRLWEParameters() }
	pBig, pHalf := *cc.evk.Parameters[logN].GetRLWEParameters(), *cc.evk.Parameters[logN-1].GetRLWEParameters()
	sys := rlwe.NewRingPackingEvaluator(cc.evk)
	hct := func(ct *rlwe.Ciphertext) uint64 {
		if ct == nil {
			return 5
		}
		return hashCt(ct)
	}
	// an input at a drawn level (copy of a sample ciphertext)
	input := func(src *rlwe.Ciphertext) *rlwe.Ciphertext {
		c := src.CopyNew()
		if lv := ch.Draw("input-level", c.Level()+1); lv < c.Level() {
			c.Resize(1, lv)
		}
		return c
	}
	// a receiver: new at the level of the input, or one that was used before
	receiver := func(p rlwe.Parameters, level int) (*rlwe.Ciphertext, string) {
		if !ch.Chance("dirty-receiver", 1, 2) {
			return rlwe.NewCiphertext(p, 1, level), "new"
		}
		dl := level + ch.Draw("dirty-level-extra", p.MaxLevel()-level+1)
		c := rlwe.NewCiphertext(p, 1, dl)
		for i := range c.Value {
			catalog.FillPoly(p.RingQ().AtLevel(dl), c.Value[i], g)
		}
		c.Scale = rlwe.NewScale(1 + g.Next()%1000)
		c.LogDimensions.Cols = int(g.Next() % 4)
		c.IsBatched = g.Next()%2 == 0
		return c, fmt.Sprintf("used(level=%d)", dl)
	}
	hmap := func(m map[int]*rlwe.Ciphertext) uint64 {
		var keys []int
		for k := range m {
			keys = append(keys, k)
		}
		sort.Ints(keys)
		h := uint64(len(keys))
		for _, k := range keys {
			h = core.SplitMix64(h ^ uint64(k)*0x9e37 ^ canonHashCt(pOf(m[k]), m[k]))
		}
		return h
	}
	nsteps := 3 + ch.Draw("nsteps", 6)
	for s := 0; s < nsteps; s++ {
		nPoison := 0
		if ch.Chance("poison", 1, 2) {
			st := core.PoisonScratch(sys, core.NewXoshiro(g.Next()))
			nPoison = st.Bytes
			ctx.Count("fault.scratch-poisoned", 1)
			ctx.Count("poisoned-bytes", int64(st.Bytes))
		}
		twin := rlwe.NewRingPackingEvaluator(cc.evk)
		kind := ch.Draw("op", 8)
		name := []string{"Split", "Merge", "Extract", "ExtractNaive", "Expand", "Repack", "RepackNaive", "Pack"}[kind]
		cls := "ringpacking|" + name
		ctx.Count("oracle.twin-step", 1)
		ctx.Count("op.ringpacking."+name, 1)
		switch kind {
		case 0:
			in := input(cc.ct)
			even, d0 := receiver(pHalf, in.Level())
			odd, d1 := receiver(pHalf, in.Level())
			if ch.Chance("no-odd-half", 1, 5) {
				odd, d1 = nil, "nil"
			}
			tin := in.CopyNew()
			h := hashCt(in)
			st := c09Exec(func() error { return sys.Split(in, even, odd) })
			var teven, todd *rlwe.Ciphertext
			var tst c09Status
			if odd != nil && ch.Chance("twin-by-New-variant", 1, 3) {
				tst = c09Exec(func() (err error) { teven, todd, err = twin.SplitNew(tin); return })
			} else {
				teven = rlwe.NewCiphertext(pHalf, 1, in.Level())
				if odd != nil {
					todd = rlwe.NewCiphertext(pHalf, 1, in.Level())
				}
				tst = c09Exec(func() error { return twin.Split(tin, teven, todd) })
			}
			ctx.Event("ringpacking step %d Split level=%d even=%s odd=%s poison=%d -> %d/%d", s, in.Level(), d0, d1, nPoison, st.kind, tst.kind)
			if hashCt(in) != h {
				ctx.Fail("inputs", cls+"|input-modified", "Split modified the ciphertext it splits")
				return
			}
			if st.kind != tst.kind {
				ctx.Fail("status", cls+"|status-differs", "Split (even %s, odd %s): %s ; a new evaluator with new receivers: %s", d0, d1, st, tst)
				return
			}
			if st.kind != 0 {
				continue
			}
			if ok, w := eqCt(pHalf, even, teven); !ok {
				ctx.Fail("result", cls+"|differs", "Split into a receiver %s for the even half gives another ciphertext than a new evaluator with new receivers: %s", d0, w)
				return
			}
			if odd != nil {
				if ok, w := eqCt(pHalf, odd, todd); !ok {
					ctx.Fail("result", cls+"|differs", "Split into a receiver %s for the odd half gives another ciphertext than a new evaluator with new receivers: %s", d1, w)
					return
				}
			}
		case 1:
			a, b := input(cc.halves[0]), input(cc.halves[1])
			if b.Level() != a.Level() {
				lv := a.Level()
				if b.Level() < lv {
					lv = b.Level()
				}
				a.Resize(1, lv)
				b.Resize(1, lv)
			}
			which := ch.Draw("halves", 4) // both, both, even only, odd only
			if which == 2 {
				b = nil
			} else if which == 3 {
				a = nil
			}
			lv := 0
			if a != nil {
				lv = a.Level()
			} else {
				lv = b.Level()
			}
			out, d := receiver(pBig, lv)
			var ta, tb *rlwe.Ciphertext
			if a != nil {
				ta = a.CopyNew()
			}
			if b != nil {
				tb = b.CopyNew()
			}
			ha, hb := hct(a), hct(b)
			st := c09Exec(func() error { return sys.Merge(a, b, out) })
			var tout *rlwe.Ciphertext
			var tst c09Status
			if a != nil && b != nil && ch.Chance("twin-by-New-variant", 1, 3) {
				tst = c09Exec(func() (err error) { tout, err = twin.MergeNew(ta, tb); return })
			} else {
				tout = rlwe.NewCiphertext(pBig, 1, lv)
				tst = c09Exec(func() error { return twin.Merge(ta, tb, tout) })
			}
			ctx.Event("ringpacking step %d Merge level=%d halves=%d out=%s poison=%d -> %d/%d", s, lv, which, d, nPoison, st.kind, tst.kind)
			if hct(a) != ha || hct(b) != hb {
				ctx.Fail("inputs", cls+"|input-modified", "Merge modified one of the two ciphertexts it merges")
				return
			}
			if st.kind != tst.kind {
				ctx.Fail("status", cls+"|status-differs", "Merge into a receiver %s: %s ; a new evaluator with a new receiver: %s", d, st, tst)
				return
			}
			if st.kind != 0 {
				continue
			}
			if ok, w := eqCt(pBig, out, tout); !ok {
				ctx.Fail("result", cls+"|differs", "Merge (halves present: %d) into a receiver %s gives another ciphertext than a new evaluator with a new receiver: %s", which, d, w)
				return
			}
		case 2, 3:
			in := input(cc.ct)
			idx := map[int]bool{}
			for n := 1 + ch.Draw("indices", 4); n > 0; n-- {
				idx[int(g.Next()%uint64(1<<logN))] = true
			}
			nidx := len(idx)
			tin := in.CopyNew()
			tidx := map[int]bool{}
			for k, v := range idx {
				tidx[k] = v
			}
			h := hashCt(in)
			var m, tm map[int]*rlwe.Ciphertext
			f, tf := sys.Extract, twin.Extract
			if kind == 3 {
				f, tf = sys.ExtractNaive, twin.ExtractNaive
			}
			st := c09Exec(func() (err error) { m, err = f(in, idx); return })
			tst := c09Exec(func() (err error) { tm, err = tf(tin, tidx); return })
			ctx.Event("ringpacking step %d %s level=%d indices=%d poison=%d -> %d/%d", s, name, in.Level(), nidx, nPoison, st.kind, tst.kind)
			if hashCt(in) != h || len(idx) != nidx {
				ctx.Fail("inputs", cls+"|input-modified", "%s modified the ciphertext or the index set it was given", name)
				return
			}
			if st.kind != tst.kind {
				ctx.Fail("status", cls+"|status-differs", "%s: %s ; a new evaluator: %s", name, st, tst)
				return
			}
			if st.kind == 0 && hmap(m) != hmap(tm) {
				ctx.Fail("result", cls+"|differs", "%s on the used evaluator (scratch poisoned: %d bytes) gives other ciphertexts than a new evaluator", name, nPoison)
				return
			}
		case 5, 6, 7:
			// a map of ciphertexts of the smallest ring into one ciphertext: the map and the ciphertexts in it are inputs
			var keys []int
			for k := range cc.small {
				keys = append(keys, k)
			}
			sort.Ints(keys)
			in, tin := map[int]*rlwe.Ciphertext{}, map[int]*rlwe.Ciphertext{}
			lv := ch.Draw("input-level", cc.small[keys[0]].Level()+1)
			for _, k := range keys {
				if kind == 7 && k >= 1<<cc.small[k].LogN() {
					continue // Pack works inside one ring: indexes below its degree
				}
				if len(in) > 0 && !ch.Chance("include", 2, 3) {
					continue
				}
				c := cc.small[k].CopyNew()
				c.Resize(1, lv)
				in[k], tin[k] = c, c.CopyNew()
			}
			hin := map[int]uint64{}
			for k, c := range in {
				hin[k] = hashCt(c)
			}
			var r, tr *rlwe.Ciphertext
			logNSmall := cc.small[keys[0]].LogN()
			f := func(e *rlwe.RingPackingEvaluator, m map[int]*rlwe.Ciphertext) (*rlwe.Ciphertext, error) {
				switch kind {
				case 5:
					return e.Repack(m)
				case 6:
					return e.RepackNaive(m)
				}
				return e.Pack(m, logNSmall, true)
			}
			st := c09Exec(func() (err error) { r, err = f(sys, in); return })
			tst := c09Exec(func() (err error) { tr, err = f(twin, tin); return })
			ctx.Event("ringpacking step %d %s level=%d inputs=%d poison=%d -> %d/%d", s, name, lv, len(hin), nPoison, st.kind, tst.kind)
			if len(in) != len(hin) {
				ctx.Fail("inputs", cls+"|input-modified", "%s changed the map of ciphertexts it was given (%d entries before, %d after)", name, len(hin), len(in))
				return
			}
			for k, c := range in {
				if c == nil || hashCt(c) != hin[k] {
					ctx.Fail("inputs", cls+"|input-modified", "%s modified the ciphertexts of the map it was given (entry %d)", name, k)
					return
				}
			}
			if st.kind != tst.kind {
				ctx.Fail("status", cls+"|status-differs", "%s: %s ; a new evaluator: %s", name, st, tst)
				return
			}
			if st.kind == 0 {
				if ok, w := eqCt(pOf(r), r, tr); !ok {
					ctx.Fail("result", cls+"|differs", "%s on the used evaluator (scratch poisoned: %d bytes) gives another ciphertext than a new evaluator: %s", name, nPoison, w)
					return
				}
			}
		default:
			var keys []int
			for k := range cc.small {
				keys = append(keys, k)
			}
			sort.Ints(keys)
			in := input(cc.small[keys[ch.Draw("small-ciphertext", len(keys))]])
			logGap := ch.Draw("log-gap", in.LogN())
			tin := in.CopyNew()
			h := hashCt(in)
			var m, tm map[int]*rlwe.Ciphertext
			st := c09Exec(func() (err error) { m, err = sys.Expand(in, logGap); return })
			tst := c09Exec(func() (err error) { tm, err = twin.Expand(tin, logGap); return })
			ctx.Event("ringpacking step %d Expand level=%d logGap=%d poison=%d -> %d/%d", s, in.Level(), logGap, nPoison, st.kind, tst.kind)
			if hashCt(in) != h {
				ctx.Fail("inputs", cls+"|input-modified", "Expand modified the ciphertext it expands")
				return
			}
			if st.kind != tst.kind {
				ctx.Fail("status", cls+"|status-differs", "Expand: %s ; a new evaluator: %s", st, tst)
				return
			}
			if st.kind == 0 && hmap(m) != hmap(tm) {
				ctx.Fail("result", cls+"|differs", "Expand on the used evaluator (scratch poisoned: %d bytes) gives other ciphertexts than a new evaluator", nPoison)
				return
			}
		}
	}
	ctx.Nontrivial = true
	ctx.Steps += int64(nsteps)
}
