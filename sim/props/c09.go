package props

import (
	"fmt"
	"github.com/tuneinsight/lattigo/v6/utils/bignum"
	"math/big"
	"reflect"

	"github.com/tuneinsight/lattigo/v6/core/rlwe"
	"github.com/tuneinsight/lattigo/v6/ring"

	"verifsim/catalog"
	"verifsim/core"
)

// C09: histories of calls on long-lived evaluators / encoders, with drawn
// aliasing patterns, dirty outputs and scratch poisoning; every step is
// mirrored on a pristine twin with copies of the inputs and a clean output.

type c09 struct{}

func (c09) ID() string { return "C09" }
func (c09) Runs(tier string) int {
	if tier == "heavy" {
		return 96
	}
	if tier == "thorough" {
		return 300000
	}
	return 3000
}
func (c09) Describe() core.Description {
	return core.Description{
		Level:  "exploration",
		Rule:   "per run: drawn scheme (integer in standard or scale-invariant mode / approximate) and parameters (LogN 5-7, 3-5 Q primes, 1-2 P primes), one long-lived evaluator, a pool of ciphertexts (degree 1 and 2, several levels and scales), plaintexts, vectors and scalars of every accepted Go type; history of 6-30 steps, each drawing an operation of the catalog, operands from the pool, an aliasing pattern (fresh output / out==op0 / out==op1 / op0==op1 / all equal / dirty output of larger degree or level with arbitrary content and metadata) and whether all scratch memory reachable from the evaluator is overwritten with garbage first; the step is mirrored on a freshly constructed twin evaluator with deep copies of the inputs and a zeroed output of the same shape. Non-trivial = at least one aliased, dirty or poisoned step executed and compared; distinct = distinct choice traces",
		Real:   []string{"bgv.Evaluator (both modes) and ckks.Evaluator public operations incl. their rlwe.Evaluator / BasisExtender / Encoder internals", "bgv.Encoder / ckks.Encoder Encode and Decode on long-lived encoders", "rlwe.Encryptor / Decryptor", "ring.Ring arithmetic, NTT, rescaling and automorphism operations over a pool of polynomials (aliased / dirty outputs)", "rlwe.KeyGenerator writing into reused key objects (row-noise oracle with the simulator's knowledge of the secrets)"},
		Stub:   []string{"scratch-memory fault injector (reflection walk over fields named buff*/buf*/tmp*/pool*)", "entropy source (deterministic crypto/rand.Reader)"},
		Assume: []string{"scratch is discovered by field name and type; scratch kept under other names is reached only through real preceding operations", "ring elements are compared canonically (mod q); trailing identically-zero components are ignored", "an aliased call may be rejected with an error; a status (ok / error / panic) that differs between system and twin is a violation", "operations documented as in place (DropLevel, SetScale, MatchScalesAndLevel) may change only their designated operand"},
	}
}

func init() { core.Register(c09{}) }

const (
	vCt = iota
	vPt
	vVec
	vU64
	vI64
	vInt
	vBig
	vF64
	vC128
	vBigF
	vVecC
	vRGSW
	vNone
)

// c09Op is one catalog entry.
type c09Op struct {
	name  string
	op1   []int // admissible kinds of the second operand (vNone = unary)
	accum bool  // the output is also an input (MulThenAdd style)
	// deg returns the natural output degree, or -1 if the operands are not admissible.
	deg  func(d0, d1 int) int
	call func(ev any, op0 *rlwe.Ciphertext, op1 any, k int, out *rlwe.Ciphertext) error
	// callNew: the library's own variant of the operation that allocates its output (XxxNew). When present, the
	// twin sometimes uses it: it is the "distinct, freshly allocated output" of the property in the library's words.
	callNew func(ev any, op0 *rlwe.Ciphertext, op1 any, k int) (*rlwe.Ciphertext, error)
	// takesK: the operation takes an integer argument drawn from ks.
	ks []int
	// inplace: documented in-place operation on op0 (no separate output).
	inplace bool
	// mutatesOp0: documented to update op0 as well as the output.
	mutatesOp0 bool
	// needDeg1: only defined for degree-1 inputs (the library does not check).
	needDeg1 bool
	// callerSetsMeta: the operation leaves the output's metadata to the caller (rlwe-level
	// operations without scale semantics); the harness copies op0's metadata into a distinct output first.
	callerSetsMeta bool
	// needMaxLevel: only defined for inputs at the maximum level (the operation works at the level of its key material).
	needMaxLevel bool
}

type c09Scheme struct {
	name    string
	params  rlwe.Parameters
	newEval func() any
	newCt   func(deg, level int) *rlwe.Ciphertext
	ops     []c09Op
	// gen draws a non-ciphertext operand of the given kind at the given level.
	gen func(g *core.Xoshiro, kind int, level int, scaleOf *rlwe.Ciphertext) any
	// fresh draws a fresh ciphertext.
	fresh   func(g *core.Xoshiro, level int) *rlwe.Ciphertext
	keyHash func() uint64
	// newScale draws a scale of the scheme's kind (mod-T integer / real).
	newScale func(g *core.Xoshiro) rlwe.Scale
	extra    func(ctx *core.RunCtx, sc *c09Scheme, sys any, g *core.Xoshiro) bool // encoder / encryptor histories
}

func hashCt(ct *rlwe.Ciphertext) uint64 {
	h := uint64(len(ct.Value))*1315423911 + 7
	for _, p := range ct.Value {
		h = hashPoly(h, p)
	}
	if ct.MetaData != nil {
		b, _ := ct.MetaData.MarshalBinary()
		h = core.SplitMix64(h ^ core.HashString(string(b)))
	}
	return h
}

func hashOperand(v any) uint64 {
	switch x := v.(type) {
	case nil:
		return 0
	case *rlwe.Ciphertext:
		return hashCt(x)
	case *rlwe.Plaintext:
		h := hashPoly(3, x.Value)
		b, _ := x.MetaData.MarshalBinary()
		return core.SplitMix64(h ^ core.HashString(string(b)))
	case []uint64:
		h := uint64(5)
		for _, c := range x {
			h = core.SplitMix64(h ^ c)
		}
		return h
	case []int64:
		h := uint64(6)
		for _, c := range x {
			h = core.SplitMix64(h ^ uint64(c))
		}
		return h
	case []float64:
		return core.HashString(fmt.Sprint(x))
	case []complex128:
		return core.HashString(fmt.Sprint(x))
	case *big.Int:
		return core.HashString("bi" + x.Text(16) + fmt.Sprint(x.Sign()))
	case *big.Float:
		return core.HashString("bf" + x.Text('p', 0) + fmt.Sprint(x.Prec()))
	case *bignum.Complex:
		return core.HashString("bc" + x[0].Text('p', 0) + fmt.Sprint(x[0].Prec()) + "|" + x[1].Text('p', 0) + fmt.Sprint(x[1].Prec()))
	default:
		return core.HashString(fmt.Sprintf("%T:%v", v, v))
	}
}

func copyOperand(v any) any {
	switch x := v.(type) {
	case *rlwe.Ciphertext:
		return x.CopyNew()
	case *rlwe.Plaintext:
		return x.CopyNew()
	case []uint64:
		return append([]uint64{}, x...)
	case []int64:
		return append([]int64{}, x...)
	case []float64:
		return append([]float64{}, x...)
	case []complex128:
		return append([]complex128{}, x...)
	case *big.Int:
		return new(big.Int).Set(x)
	case *big.Float:
		return new(big.Float).Copy(x)
	case *bignum.Complex:
		return &bignum.Complex{new(big.Float).Copy(x[0]), new(big.Float).Copy(x[1])}
	default:
		return v
	}
}

func kindName(v any) string {
	if v == nil {
		return "-"
	}
	return reflect.TypeOf(v).String()
}

// eqCt compares two results as ciphertexts: level, metadata, polynomials
// canonically; trailing components that are identically zero are ignored.
func eqCt(params rlwe.Parameters, a, b *rlwe.Ciphertext) (bool, string) {
	if a.Level() != b.Level() {
		return false, fmt.Sprintf("level %d vs %d", a.Level(), b.Level())
	}
	if !a.MetaData.Equal(b.MetaData) {
		return false, fmt.Sprintf("metadata differs: scale %s (mod %v) vs %s (mod %v); dims %v vs %v; batched %v/%v ntt %v/%v montgomery %v/%v bitrev %v/%v", a.Scale.Value.Text('g', 20), a.Scale.Mod, b.Scale.Value.Text('g', 20), b.Scale.Mod,
			a.LogDimensions, b.LogDimensions, a.IsBatched, b.IsBatched, a.IsNTT, b.IsNTT, a.IsMontgomery, b.IsMontgomery, a.IsBitReversed, b.IsBitReversed)
	}
	r := params.RingQ().AtLevel(a.Level())
	isZero := func(p ring.Poly) bool {
		for i, row := range p.Coeffs {
			q := r.SubRings[i].Modulus
			for _, c := range row {
				if c%q != 0 {
					return false
				}
			}
		}
		return true
	}
	da, db := len(a.Value), len(b.Value)
	for da > 0 && isZero(a.Value[da-1]) {
		da--
	}
	for db > 0 && isZero(b.Value[db-1]) {
		db--
	}
	if da != db {
		return false, fmt.Sprintf("effective degree %d vs %d (allocated %d vs %d)", da-1, db-1, len(a.Value)-1, len(b.Value)-1)
	}
	for i := 0; i < da; i++ {
		if ok, w := eqPoly(r, a.Value[i], b.Value[i]); !ok {
			return false, fmt.Sprintf("component %d: %s", i, w)
		}
	}
	return true, ""
}

type c09Status struct {
	kind int // 0 ok, 1 error, 2 panic
	msg  string
}

func (s c09Status) String() string {
	return []string{"ok", "error", "panic"}[s.kind] + ": " + s.msg
}

func c09Exec(f func() error) c09Status {
	var err error
	pk, site, msg := core.Protect(func() { err = f() })
	if pk {
		return c09Status{2, site + ": " + msg}
	}
	if err != nil {
		return c09Status{1, err.Error()}
	}
	return c09Status{0, ""}
}

func (c09) Run(ctx *core.RunCtx) {
	ch := ctx.Ch
	// the bootstrapping circuit (seconds per run): thorough tier only, and rarely; tier "heavy": always
	if ctx.Tier == "heavy" || ctx.Tier == "thorough" && ch.Chance("heavy-history", 1, 400) {
		c09HeavyRun(ctx)
		return
	}
	// the circuits on composite minimax polynomials (a tenth of a second to a second per run): every tier, rarely
	if ch.Chance("circuits-history", 1, 100) {
		ctx.Nontrivial = true
		c09CircuitsRun(ctx, core.NewXoshiro(uint64(ch.Draw("content-seed", 1<<20))))
		return
	}
	var sc *c09Scheme
	switch ch.Weighted("scheme", []int{8, 8, 8, 4, 2, 4, 2, 1, 1, 1}) {
	case 9:
		c09BlindRotRun(ctx)
		return
	case 8:
		c09BridgeRun(ctx)
		return
	case 7:
		c09RingPackRun(ctx)
		return
	case 6:
		c09RingQPRun(ctx)
		return
	case 5:
		sc = c09RLWE(ctx)
	case 3:
		c09RingRun(ctx)
		return
	case 4:
		c09KeyGenRun(ctx)
		return
	case 0:
		sc = c09BGV(ctx, false)
	case 1:
		sc = c09BGV(ctx, true)
	default:
		sc = c09CKKS(ctx)
	}
	g := core.NewXoshiro(uint64(ch.Draw("content-seed", 1<<20)))
	params := sc.params
	L := params.MaxLevelQ()
	sys := sc.newEval()
	keys0 := sc.keyHash()
	// pool
	var pool []*rlwe.Ciphertext
	for i := 0; i < 4; i++ {
		pool = append(pool, sc.fresh(g, L-ch.Draw("init-level-drop", 2)))
	}
	nsteps := 6 + ch.Draw("nsteps", 25)
	interesting := 0
	for s := 0; s < nsteps; s++ {
		op := &sc.ops[ch.Draw("op", len(sc.ops))]
		op0 := pool[ch.Draw("op0", len(pool))]
		kind := op.op1[ch.Draw("op1-kind", len(op.op1))]
		var op1 any
		switch kind {
		case vNone:
		case vCt:
			op1 = pool[ch.Draw("op1", len(pool))]
		default:
			op1 = sc.gen(g, kind, op0.Level(), op0)
		}
		k := 0
		if len(op.ks) > 0 {
			k = op.ks[ch.Draw("k", len(op.ks))]
		}
		d1 := 0
		if c, ok := op1.(*rlwe.Ciphertext); ok {
			d1 = c.Degree()
		}
		nat := op.deg(op0.Degree(), d1)
		if nat < 0 || op.needDeg1 && op0.Degree() != 1 || op.needMaxLevel && op0.Level() != L {
			continue
		}
		// aliasing pattern
		pat := ch.Weighted("alias", []int{4, 3, 2, 2, 1, 3})
		if op.inplace {
			pat = 1
		}
		var out *rlwe.Ciphertext
		patName := ""
		c1, op1IsCt := op1.(*rlwe.Ciphertext)
		switch pat {
		case 1:
			out, patName = op0, "out==op0"
		case 2:
			if op1IsCt {
				out, patName = c1, "out==op1"
			}
		case 3:
			if op1IsCt {
				op1, c1 = op0, op0
				patName = "op0==op1"
			}
		case 4:
			if op1IsCt {
				op1, c1 = op0, op0
				out, patName = op0, "out==op0==op1"
			}
		case 5:
			// dirty output: larger degree and/or level, arbitrary content and metadata
			dd := nat + ch.Draw("dirty-degree-extra", 2)
			if dd > 2 {
				dd = 2
			}
			dl := op0.Level() + ch.Draw("dirty-level-extra", L-op0.Level()+1)
			if op.callerSetsMeta {
				// low-level operation without shape management: the caller provides an output of
				// the right shape; only its previous content is arbitrary
				dd, dl = nat, op0.Level()
			}
			out = sc.newCt(dd, dl)
			for i := range out.Value {
				catalog.FillPoly(params.RingQ().AtLevel(dl), out.Value[i], g)
			}
			other := pool[ch.Draw("dirty-metadata-from", len(pool))]
			*out.MetaData = *other.MetaData
			if ch.Bool("dirty-scale") {
				out.Scale = sc.newScale(g)
			}
			patName = fmt.Sprintf("dirty-out(deg=%d,level=%d)", dd, dl)
			if !op.callerSetsMeta && dd > 1 && ch.Chance("dirty-shrunk", 1, 2) || !op.callerSetsMeta && dd == 1 && dl > op0.Level() && ch.Chance("dirty-shrunk-level", 1, 3) {
				// ... and was shrunk since (as a relinearization or a rescaling in place does): the surplus component
				// and rows sit in the spare capacity of the receiver
				sd, sl := dd-ch.Draw("shrink-degree", 2), dl-ch.Draw("shrink-level", 2)
				if sl < op0.Level() {
					sl = op0.Level()
				}
				if sd < 1 {
					// a receiver without a second component is another matter (several operations index it)
					sd = 1
				}
				out.Resize(sd, sl)
				patName = fmt.Sprintf("dirty-out(deg=%d,level=%d,shrunk from %d,%d)", sd, sl, dd, dl)
				ctx.Count("probe.dirty-output-shrunk", 1)
				dd, dl = sd, sl
			}
			if dd > nat {
				ctx.Count("probe.dirty-output-larger-degree", 1)
			}
			if dl > op0.Level() {
				ctx.Count("probe.dirty-output-larger-level", 1)
			}
		}
		if out == nil {
			lvl := op0.Level()
			if op1IsCt && c1.Level() < lvl {
				lvl = c1.Level()
			}
			out = sc.newCt(nat, lvl)
			if patName == "" {
				patName = "fresh-out"
			}
		}
		if op.accum && out != op0 && (!op1IsCt || out != c1) {
			// accumulator: an in-out operand with real content
			// the accumulator is a value of the pool: a copy of it, or (one time in two) the very object with
			// whatever its history left in it (spare capacity of a previous larger degree or level)
			acc := pool[ch.Draw("accumulator", len(pool))]
			if acc == op0 || op1IsCt && acc == c1 || !ch.Bool("accumulator-with-history") {
				acc = acc.CopyNew()
			} else {
				ctx.Count("probe.accumulator-with-history", 1)
			}
			if pat != 5 {
				out = acc
				patName += "+accumulator"
			}
		}
		poison := ch.Chance("poison", 1, 2)
		// twin inputs are copied BEFORE the system call
		t0 := op0.CopyNew()
		var t1 any = copyOperand(op1)
		if op1IsCt && c1 == op0 {
			t1 = t0
		}
		var tout *rlwe.Ciphertext
		twinNew := false
		switch {
		case op.inplace:
			tout = t0
		case op.accum:
			tout = out.CopyNew()
			if out == op0 {
				tout = t0
			} else if op1IsCt && out == c1 {
				tout = t1.(*rlwe.Ciphertext)
			}
		default:
			// the twin always writes into a distinct, clean output of the natural
			// shape: the system's result must not depend on its output being an
			// operand, nor on a larger previous degree or level of its output
			lvl := op0.Level()
			if op1IsCt && c1.Level() < lvl {
				lvl = c1.Level()
			}
			tout = sc.newCt(nat, lvl)
			if op.callNew != nil && ch.Chance("twin-by-New-variant", 1, 3) {
				twinNew = true
			}
		}
		if op.callerSetsMeta {
			if out != op0 {
				*out.MetaData = *op0.MetaData
			}
			if tout != t0 {
				*tout.MetaData = *t0.MetaData
			}
		}
		// snapshots of everything that is not the designated output
		h0, h1 := hashCt(op0), hashOperand(op1)
		poolHash := make([]uint64, len(pool))
		for i, p := range pool {
			poolHash[i] = hashCt(p)
		}
		nPoison := 0
		if poison {
			st := core.PoisonScratch(sys, core.NewXoshiro(g.Next()))
			nPoison = st.Bytes
			ctx.Count("fault.scratch-poisoned", 1)
			ctx.Count("poisoned-bytes", int64(st.Bytes))
			if st.Bytes == 0 {
				ctx.Harness("scratch poisoning found no scratch memory in %T", sys)
			}
		}
		c09ArgModified, c09Aux = "", 0
		sysSt := c09Exec(func() error { return op.call(sys, op0, op1, k, out) })
		if c09ArgModified != "" {
			ctx.Fail("inputs", sc.name+"|"+op.name+"|argument-modified", "%s modified %s", op.name, c09ArgModified)
			return
		}
		sysAux := c09Aux
		c09Aux = 0
		twin := sc.newEval()
		var twinSt c09Status
		if twinNew {
			ctx.Count("probe.twin-by-New-variant", 1)
			twinSt = c09Exec(func() error {
				r, err := op.callNew(twin, t0, t1, k)
				if err == nil && r != nil {
					tout = r
				}
				return err
			})
			patName += " vs New-variant"
		} else {
			twinSt = c09Exec(func() error { return op.call(twin, t0, t1, k, tout) })
		}
		twinAux := c09Aux
		ctx.Event("step %d %s(%s) k=%d %s poison=%d op0(l=%d,d=%d) -> sys %s / twin %s", s, op.name, kindName(op1), k, patName, nPoison, op0.Level(), op0.Degree(), []string{"ok", "error", "panic"}[sysSt.kind], []string{"ok", "error", "panic"}[twinSt.kind])
		cls := sc.name + "|" + op.name + "(" + kindName(op1) + ")|" + aliasClass(patName)
		ctx.Count("oracle.twin-step", 1)
		ctx.Count("op."+sc.name+"."+op.name, 1)
		if patName != "fresh-out" || poison {
			interesting++
		}
		// (a) inputs intact
		if out != op0 && !op.inplace && !op.mutatesOp0 {
			if hashCt(op0) != h0 {
				ctx.Fail("inputs", cls+"|op0-modified", "%s modified its first operand although the output is a different object (%s)", op.name, patName)
				return
			}
		}
		if !(op1IsCt && out == c1) {
			if hashOperand(op1) != h1 {
				ctx.Fail("inputs", cls+"|op1-modified", "%s modified its second operand of type %s (%s)", op.name, kindName(op1), patName)
				return
			}
		}
		// values that are not arguments of this call at all (results of earlier steps) stay as they are: an
		// earlier output that still shares a metadata object or a polynomial with one of them would change here
		for i, p := range pool {
			if p == out || p == op0 || op1IsCt && p == c1 {
				continue
			}
			if hashCt(p) != poolHash[i] {
				ctx.Fail("inputs", cls+"|bystander-modified", "%s (%s) changed a ciphertext that is not among its arguments (value %d of the pool: the result or an operand of an earlier step)", op.name, patName, i)
				return
			}
		}
		if sysSt.kind == 0 && out != op0 && out.MetaData != nil && out.MetaData == op0.MetaData {
			ctx.Fail("inputs", cls+"|metadata-object-shared", "%s left its output sharing the metadata object of its first operand: a later change of one changes the other", op.name)
			return
		}
		// (b) status
		aliased := out == op0 || (op1IsCt && (out == c1 || c1 == op0))
		if sysSt.kind != twinSt.kind {
			if aliased && sysSt.kind == 1 && twinSt.kind == 0 {
				ctx.Count("probe.aliased-call-rejected", 1)
				continue
			}
			if pat == 5 && sysSt.kind == 1 && twinSt.kind == 0 {
				// an output of unsuitable shape is refused with an error: explicit, not a wrong result
				ctx.Count("probe.dirty-output-rejected-with-error", 1)
				continue
			}
			if poison || patName != "fresh-out" {
				ctx.Fail("status", cls+"|status-differs", "%s %s: system evaluator -> %s ; pristine twin -> %s", op.name, patName, sysSt, twinSt)
				return
			}
			ctx.Fail("status", cls+"|history-dependent-status", "%s with a fresh output on a used evaluator -> %s ; on a new evaluator -> %s", op.name, sysSt, twinSt)
			return
		}
		if sysSt.kind != 0 {
			ctx.Count("probe.step-rejected-by-both", 1)
			continue
		}
		if op.mutatesOp0 {
			if ok, w := eqCt(params, op0, t0); !ok {
				ctx.Fail("result", cls+"|op0-differs", "%s updates its first operand differently on the used evaluator than on a pristine one: %s", op.name, w)
				return
			}
		}
		if sysAux != twinAux {
			ctx.Fail("result", cls+"|other-outputs-differ", "%s with %s: the outputs other than the designated one differ from those of a pristine evaluator with distinct outputs (k=%d)", op.name, patName, k)
			return
		}
		// (c) same ciphertext
		if ok, w := eqCt(params, out, tout); !ok {
			why := "history of the evaluator"
			if poison {
				why = "scratch poisoning or history"
			}
			desc := fmt.Sprintf("op0: degree %d level %d scale %s", t0.Degree(), t0.Level(), t0.Scale.Value.Text('g', 12))
			if tc, ok := t1.(*rlwe.Ciphertext); ok {
				desc += fmt.Sprintf("; op1: degree %d level %d scale %s", tc.Degree(), tc.Level(), tc.Scale.Value.Text('g', 12))
			}
			ctx.Fail("result", cls+"|differs", "%s(%s) with %s gives a different ciphertext than a pristine evaluator with a clean distinct output (%s): %s [%s]", op.name, kindName(op1), patName, why, w, desc)
			return
		}
		// results feed later steps
		if len(pool) < 8 {
			pool = append(pool, out)
		} else {
			pool[ch.Draw("pool-slot", len(pool))] = out
		}
		if out.Degree() == 2 {
			ctx.Count("probe.degree-2-values-in-pool", 1)
		}
	}
	if sc.keyHash() != keys0 {
		ctx.Fail("inputs", sc.name+"|keys-modified", "the evaluation keys changed during the history")
		return
	}
	if sc.extra != nil && !sc.extra(ctx, sc, sys, g) {
		return
	}
	if interesting > 0 {
		ctx.Nontrivial = true
	}
	ctx.Steps += int64(nsteps)
}

func aliasClass(p string) string {
	switch {
	case len(p) >= 9 && p[:9] == "dirty-out":
		return "dirty-out"
	default:
		return p
	}
}
