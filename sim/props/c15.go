package props

import (
	"fmt"

	"github.com/tuneinsight/lattigo/v6/core/rlwe"
	"github.com/tuneinsight/lattigo/v6/multiparty"

	"verifsim/catalog"
	"verifsim/core"
	"verifsim/simnet"
)

// C15: t-out-of-N threshold on a simulated network. Parties exchange Shamir
// shares over a transport that delays, reorders, duplicates and serializes;
// parties crash; any t survivors, listed in any order, must reconstruct the
// ideal secret; fewer must be refused.

type c15 struct{}

func (c15) ID() string { return "C15" }
func (c15) Runs(tier string) int {
	if tier == "thorough" {
		return 600000
	}
	return 3000
}
func (c15) Describe() core.Description {
	return core.Description{
		Level:  "exploration",
		Rule:   "per run: drawn parameters (LogN 4-8, 1-4 Q and 0-2 P primes of unequal size), N in 1..6 parties, t in 1..N, drawn public points (small / > 2^32 / near 2^63 / just above a prime; distinct non-zero integers; in 1 run of 8 two of them are equal modulo one prime of the chain or one is a multiple of a prime: such sets must be refused, and no single share may be the secret modulo a prime), set-up shares sent over the simulated network (delay/reordering, duplicates, in-transit serialization, aggregation by reference/in place/fresh in arrival order), crashes during or after set-up, then 1-4 reconstruction rounds on long-lived Combiners with a drawn t-subset of survivors, per-party listing orders and differently ordered 'others' lists; about 1 run in 8 enumerates every t-subset. Non-trivial = at least one transport or crash fault fired and at least one reconstruction or refusal oracle evaluated; distinct = distinct choice traces",
		Real:   []string{"multiparty.Thresholdizer (GenShamirPolynomial, GenShamirSecretShare, AggregateShares)", "multiparty.Combiner (NewCombiner, GenAdditiveShare)", "ShamirSecretShare serialization", "rlwe.KeyGenerator", "ring/ringqp scalar and polynomial arithmetic"},
		Stub:   []string{"network (simnet: discrete-event transport with delay, reordering, duplication, crash)", "party bookkeeping (who sent what, duplicate suppression)", "entropy source (deterministic crypto/rand.Reader)"},
		Assume: []string{"the active list handed to GenAdditiveShare contains exactly the listed parties, the caller among them", "a crash during set-up aborts the protocol: nothing but absence of panics is asserted then"},
	}
}

func init() { core.Register(c15{}) }

type c15Party struct {
	id     int
	point  multiparty.ShamirPublicPoint
	sk     *rlwe.SecretKey
	thr    multiparty.Thresholdizer
	acc    *multiparty.ShamirSecretShare
	got    map[int]bool
	cmb    *multiparty.Combiner
	sentTo int
	run    *c15Run
}

type c15Run struct {
	ctx     *core.RunCtx
	params  rlwe.Parameters
	N, t    int
	parties []*c15Party
	dupSeen int
	failed  bool
}

func (p *c15Party) Deliver(n *simnet.Net, m *simnet.Msg) {
	r := p.run
	if r.failed {
		return
	}
	ctx := r.ctx
	share := m.Payload.(*multiparty.ShamirSecretShare)
	if p.got[m.From] {
		// duplicate: the stub drops it (a re-parsed duplicate is a separate object)
		r.dupSeen++
		return
	}
	p.got[m.From] = true
	if p.acc == nil {
		if ctx.Ch.Bool("acc-by-reference") {
			p.acc = share
		} else {
			c := p.thr.AllocateThresholdSecretShare()
			c.Poly.Copy(share.Poly)
			p.acc = &c
		}
		return
	}
	var err error
	pk, site, msg := core.Protect(func() {
		switch ctx.Ch.Draw("agg-form", 3) {
		case 0:
			err = p.thr.AggregateShares(*p.acc, *share, p.acc)
		case 1:
			err = p.thr.AggregateShares(*share, *p.acc, p.acc)
			ctx.Count("probe.aggregate-out-aliases-second-operand", 1)
		default:
			out := p.thr.AllocateThresholdSecretShare()
			err = p.thr.AggregateShares(*p.acc, *share, &out)
			p.acc = &out
		}
	})
	if pk {
		r.failed = true
		ctx.Fail("panic", "Thresholdizer.AggregateShares", "aggregating set-up shares panicked in %s: %s", site, msg)
		return
	}
	if err != nil {
		r.failed = true
		ctx.Fail("setup", "Thresholdizer.AggregateShares|error", "aggregating two valid set-up shares failed: %v", err)
	}
}

func drawPoint(ch *core.Chooser, moduli []uint64) uint64 {
	switch ch.Weighted("point-kind", []int{4, 2, 2, 1, 1, 2}) {
	case 4:
		return ^uint64(0) - uint64(ch.Draw("point-near-2^64", 64))
	case 5:
		// just above a modulus (or a small multiple of it): reduction boundary
		q := moduli[ch.Draw("point-modulus", len(moduli))]
		m := uint64(1 + ch.Draw("point-modulus-multiple", 3))
		if q > (^uint64(0))/4 {
			m = 1
		}
		return q*m + 1 + uint64(ch.Draw("point-modulus-offset", 16))
	case 0:
		return 1 + uint64(ch.Draw("point-small", 40))
	case 1:
		return 1<<32 + uint64(ch.Draw("point-gt32", 1<<20))
	case 2:
		return uint64(ch.Draw("point-hi", 1<<30))<<33 | uint64(ch.Draw("point-lo", 1<<30))
	default:
		return 1<<63 + uint64(ch.Draw("point-63", 1<<30))
	}
}

func (c15) Run(ctx *core.RunCtx) {
	ch := ctx.Ch
	params, spec := drawParams(ctx, catalog.SpecOpts{MinLogN: 4, MaxLogN: 8, MinQ: 1, MaxQ: 4, MinP: 0, MaxP: 2, MinBits: 20, MaxBits: 60})
	N := 1 + ch.Draw("N", 6)
	t := 1 + ch.Draw("t", N)
	r := &c15Run{ctx: ctx, params: params, N: N, t: t}
	var moduli []uint64
	moduli = append(moduli, params.Q()...)
	moduli = append(moduli, params.P()...)
	// public points
	var points []uint64
	for len(points) < N {
		ok := false
		for try := 0; try < 50 && !ok; try++ {
			x := drawPoint(ch, moduli)
			ok = true
			for _, q := range moduli {
				if x%q == 0 {
					ok = false
				}
				for _, y := range points {
					if x%q == y%q {
						ok = false
					}
				}
			}
			if ok {
				points = append(points, x)
			}
		}
		if !ok {
			ctx.Harness("no admissible public point after 50 draws")
		}
	}
	// The points above are distinct and non-zero modulo every prime. The property speaks of arbitrary distinct
	// non-zero points: one run in eight makes two of them congruent modulo one prime of the chain (distinct
	// integers), or makes one a multiple of a prime. Interpolation is then impossible modulo that prime: the
	// parties concerned must be refused, and no single share may carry the secret.
	degenerate := 0 // 1: points[dj] = points[di] modulo dq ; 2: points[dj] = 0 modulo dq
	di, dj := 0, 0
	var dq uint64
	if N >= 2 && ch.Chance("points-degenerate-modulo-a-prime", 1, 8) {
		dq = moduli[ch.Draw("degenerate-modulus", len(moduli))]
		dj = 1 + ch.Draw("degenerate-point", N-1)
		m := uint64(1 + ch.Draw("degenerate-multiple", 3))
		if dq > (^uint64(0))/8 {
			m = 1
		}
		saved := points[dj]
		if ch.Bool("degenerate-zero") {
			degenerate, points[dj] = 2, dq*m
		} else {
			di = ch.Draw("degenerate-partner", dj)
			degenerate, points[dj] = 1, points[di]%dq+dq*m
		}
		for k, y := range points {
			if k != dj && y == points[dj] {
				degenerate = 0 // (not distinct as integers: leave the run as it was)
				points[dj] = saved
			}
		}
		if degenerate != 0 {
			ctx.Count("probe.points-degenerate-modulo-a-prime", 1)
		}
	}
	ctx.Event("config %s N=%d t=%d points=%v degenerate=%d", spec, N, t, points, degenerate)
	kgen := rlwe.NewKeyGenerator(params)
	net := simnet.New(ctx, simnet.Config{MaxDelay: []int{0, 5, 50}[ch.Draw("max-delay", 3)], DupNum: ch.Draw("dup-rate", 3), DupDen: 10})
	for i := 0; i < N; i++ {
		p := &c15Party{id: i, point: multiparty.ShamirPublicPoint(points[i]), sk: kgen.GenSecretKeyNew(), thr: multiparty.NewThresholdizer(params), got: map[int]bool{}, run: r}
		r.parties = append(r.parties, p)
		net.Nodes[i] = p
	}
	ideal := make([]*rlwe.SecretKey, N)
	for i, p := range r.parties {
		ideal[i] = p.sk
	}
	idealSK := addSK(params, ideal)
	// set-up: every party shares its secret; a party may crash in the middle
	crashDuringSetup := -1
	crashAfter := 0
	if N > 1 && ch.Chance("crash-during-setup", 1, 10) {
		crashDuringSetup = ch.Draw("crash-who", N)
		crashAfter = ch.Draw("crash-after-sends", N)
	}
	serialize := ch.Chance("serialize-transit", 1, 2)
	order := ch.Perm("send-order", N)
	for _, i := range order {
		p := r.parties[i]
		var poly multiparty.ShamirPolynomial
		var err error
		// the key object handed to the dealer's polynomial is the party's own, or a copy that the party overwrites
		// once the polynomial exists (the polynomial holds its coefficients, the shares are dealt later)
		skArg := p.sk
		discard := ch.Chance("dealer-key-object-overwritten-after", 1, 4)
		if discard {
			skArg = p.sk.CopyNew()
		}
		pk, site, msg := core.Protect(func() { poly, err = p.thr.GenShamirPolynomial(t, skArg) })
		if pk || err != nil {
			ctx.Fail("setup", "GenShamirPolynomial", "GenShamirPolynomial(t=%d) failed: panic=%v %s %s err=%v", t, pk, site, msg, err)
			return
		}
		if discard {
			catalog.FillPolyQP(*params.RingQP(), skArg.Value, core.NewXoshiro(uint64(i)+77))
			ctx.Count("probe.dealer-key-object-overwritten-after-polynomial", 1)
		}
		skBefore := hashQP(p.sk.Value)
		for _, j := range ch.Perm("recipient-order", N) {
			if i == crashDuringSetup && p.sentTo >= crashAfter {
				net.Crash(i)
				break
			}
			share := p.thr.AllocateThresholdSecretShare()
			if ch.Chance("share-receiver-used-before", 1, 3) {
				// the dealer writes the share into an object that held another value before (it keeps one share
				// object and fills it for one recipient after the other)
				catalog.FillPolyQP(*params.RingQP(), share.Poly, core.NewXoshiro(uint64(i*31+j)+9))
				ctx.Count("probe.setup-share-receiver-used-before", 1)
			}
			pk, site, msg := core.Protect(func() { p.thr.GenShamirSecretShare(r.parties[j].point, poly, &share) })
			if pk {
				ctx.Fail("panic", "GenShamirSecretShare", "GenShamirSecretShare panicked in %s: %s", site, msg)
				return
			}
			sp := &share
			if j != i && serialize {
				var ok bool
				sp, ok = transit(ctx, sp, new(multiparty.ShamirSecretShare), true, "ShamirSecretShare")
				if !ok {
					return
				}
			}
			p.sentTo++
			net.Send(&simnet.Msg{From: i, To: j, Kind: "shamir-share", Payload: sp})
		}
		if hashQP(p.sk.Value) != skBefore {
			ctx.Fail("inputs", "GenShamirPolynomial|secret-modified", "the party's secret key changed while it was being shared")
			return
		}
	}
	if !net.Run() {
		ctx.Fail("liveness", "setup|event-budget", "set-up did not quiesce within %d events", net.Max)
		return
	}
	if r.failed {
		return
	}
	if crashDuringSetup >= 0 && r.parties[crashDuringSetup].sentTo < N {
		ctx.Count("probe.setup-aborted-by-crash", 1)
		ctx.Nontrivial = true
		ctx.Count("oracle.setup-abort-no-panic", 1)
		return
	}
	// liveness once faults stopped: every party holds all N set-up shares
	ctx.Count("oracle.setup-complete", 1)
	for _, p := range r.parties {
		if len(p.got) != N {
			ctx.Fail("liveness", "setup|incomplete", "party %d holds %d of %d set-up shares after the network went quiet", p.id, len(p.got), N)
			return
		}
	}
	// no single party holds the secret (modulo any prime) when more than one is needed
	leaked := false
	if t > 1 {
		ctx.Count("oracle.no-single-share-is-the-secret", 1)
		for _, p := range r.parties {
			rows := append(append([][]uint64{}, p.acc.Poly.Q.Coeffs...), p.acc.Poly.P.Coeffs...)
			ideal := append(append([][]uint64{}, idealSK.Value.Q.Coeffs...), idealSK.Value.P.Coeffs...)
			for i := range rows {
				same := true
				for j := range rows[i] {
					if rows[i][j]%moduli[i] != ideal[i][j]%moduli[i] {
						same = false
						break
					}
				}
				if same && !leaked {
					// (a listed finding does not end the run: the reconstruction below is checked all the same)
					leaked = true
					ctx.Fail("secrecy", "threshold-share|equals-secret-modulo-a-prime", "with t=%d of N=%d, the threshold share of the party with point %d alone is the ideal secret key modulo the prime %d (the point is a multiple of it): fewer than t parties reconstruct", t, N, uint64(p.point), moduli[i])
				}
			}
		}
	}
	// crashes after set-up
	alive := make([]int, 0, N)
	a := ch.Draw("survivors", N+1)
	perm := ch.Perm("survivor-pick", N)
	for k, i := range perm {
		if k < a {
			alive = append(alive, i)
		} else {
			net.Crash(i)
		}
	}
	sortInts(alive)
	ctx.Event("survivors %v (t=%d)", alive, t)
	faults := ctx.Stats["fault.delay-reorder"] + ctx.Stats["fault.duplicate-delivery"] + ctx.Stats["fault.share-serialized-in-transit"] + ctx.Stats["fault.party-crash"]
	rqp := *params.RingQP()

	// combiners are long lived: built once per survivor, with differently ordered "others"
	for _, i := range alive {
		p := r.parties[i]
		var others []multiparty.ShamirPublicPoint
		for _, j := range ch.Perm("others-order", N) {
			if j == i && ch.Bool("others-omits-own") {
				continue
			}
			others = append(others, r.parties[j].point)
		}
		var cmb multiparty.Combiner
		pk, site, msg := core.Protect(func() { cmb = multiparty.NewCombiner(params, p.point, others, t) })
		if pk {
			ctx.Fail("panic", "NewCombiner", "NewCombiner panicked in %s: %s", site, msg)
			return
		}
		p.cmb = &cmb
	}
	reconstruct := func(subset []int, tag string) bool {
		sum := rlwe.NewSecretKey(params)
		for _, i := range subset {
			p := r.parties[i]
			// each party lists the active set in its own order
			var list []multiparty.ShamirPublicPoint
			for _, k := range ch.Perm("listing-order", len(subset)) {
				list = append(list, r.parties[subset[k]].point)
			}
			listCopy := append([]multiparty.ShamirPublicPoint{}, list...)
			shareBefore := hashQP(p.acc.Poly)
			out := rlwe.NewSecretKey(params)
			if ch.Bool("dirty-output-key") {
				catalog.FillPolyQP(rqp, out.Value, core.NewXoshiro(uint64(i)+5))
			}
			var err error
			pk, site, msg := core.Protect(func() { err = p.cmb.GenAdditiveShare(list, p.point, *p.acc, out) })
			if pk {
				ctx.Fail("panic", "GenAdditiveShare", "GenAdditiveShare panicked in %s: %s", site, msg)
				return false
			}
			if err != nil {
				// (the drawn pair, or another pair that the replaced point happens to form modulo another prime)
				refusable := false
				for _, a := range subset {
					for _, b := range subset {
						for _, q := range moduli {
							if a < b && points[a]%q == points[b]%q {
								refusable = true
							}
						}
					}
				}
				if degenerate != 0 && refusable {
					// refused: two of the active points coincide modulo a prime (or one vanishes): no interpolation
					ctx.Count("probe.degenerate-points-refused", 1)
					ctx.Event("reconstruction %s subset=%v refused: %v", tag, subset, err)
					return true
				}
				ctx.Fail("reconstruct", "GenAdditiveShare|error", "GenAdditiveShare with exactly t=%d active parties failed: %v", t, err)
				return false
			}
			if hashQP(p.acc.Poly) != shareBefore {
				ctx.Fail("inputs", "GenAdditiveShare|share-modified", "GenAdditiveShare modified the party's threshold share")
				return false
			}
			for k := range list {
				if list[k] != listCopy[k] {
					ctx.Fail("inputs", "GenAdditiveShare|list-modified", "GenAdditiveShare modified the active list")
					return false
				}
			}
			rqp.Add(sum.Value, out.Value, sum.Value)
		}
		ctx.Count("oracle.reconstruction", 1)
		if ok, where := eqQP(rqp, sum.Value, idealSK.Value); !ok {
			ctx.Event("reconstruction %s subset=%v WRONG", tag, subset)
			ctx.Fail("reconstruct", "sum-differs|"+tag, "the additive shares of parties %v (t=%d of N=%d, points %v) do not sum to the ideal secret: %s", subset, t, N, points, where)
			return false
		}
		ctx.Event("reconstruction %s subset=%v ok", tag, subset)
		return true
	}
	if len(alive) >= t {
		if ch.Chance("enumerate-subsets", 1, 8) {
			ctx.Count("probe.full-subset-enumeration", 1)
			var rec func(start int, cur []int) bool
			rec = func(start int, cur []int) bool {
				if len(cur) == t {
					return reconstruct(append([]int{}, cur...), "enumerated")
				}
				for i := start; i < len(alive); i++ {
					if !rec(i+1, append(cur, alive[i])) {
						return false
					}
				}
				return true
			}
			if !rec(0, nil) {
				return
			}
		} else {
			rounds := 1 + ch.Draw("rounds", 4)
			for k := 0; k < rounds; k++ {
				pp := ch.Perm("subset-pick", len(alive))
				subset := make([]int, t)
				for x := 0; x < t; x++ {
					subset[x] = alive[pp[x]]
				}
				tag := "first-use"
				if k > 0 {
					tag = "reused-combiner"
				}
				if !reconstruct(subset, tag) {
					return
				}
			}
		}
	}
	// refusal: fewer than t listed parties
	if t >= 2 && len(alive) >= 1 {
		short := ch.Draw("short-list-len", t) // 0..t-1
		p := r.parties[alive[0]]
		var list []multiparty.ShamirPublicPoint
		pp := ch.Perm("short-pick", len(alive))
		for x := 0; x < short && x < len(alive); x++ {
			list = append(list, r.parties[alive[pp[x]]].point)
		}
		out := rlwe.NewSecretKey(params)
		var err error
		pk, site, msg := core.Protect(func() { err = p.cmb.GenAdditiveShare(list, p.point, *p.acc, out) })
		ctx.Count("oracle.refusal-below-threshold", 1)
		ctx.Event("refusal check: %d listed < t=%d -> err=%v", len(list), t, err)
		if pk {
			ctx.Fail("panic", "GenAdditiveShare|short-list", "GenAdditiveShare with %d < t=%d parties panicked in %s: %s", len(list), t, site, msg)
			return
		}
		if err == nil {
			ctx.Fail("refusal", "accepted-below-threshold", "GenAdditiveShare accepted %d active parties although the threshold is %d", len(list), t)
			return
		}
		// the same parties named more than once: a listing of t or more entries that names fewer than t
		// parties is still fewer than t parties
		if len(list) >= 1 {
			padded := append([]multiparty.ShamirPublicPoint{}, list...)
			for len(padded) < t+ch.Draw("duplicate-padding", 2) {
				padded = append(padded, list[ch.Draw("duplicate-of", len(list))])
			}
			pm := ch.Perm("duplicate-order", len(padded))
			shuffled := make([]multiparty.ShamirPublicPoint, len(padded))
			for i, j := range pm {
				shuffled[i] = padded[j]
			}
			pk, site, msg := core.Protect(func() { err = p.cmb.GenAdditiveShare(shuffled, p.point, *p.acc, out) })
			ctx.Count("oracle.refusal-below-threshold", 1)
			if pk {
				ctx.Fail("panic", "GenAdditiveShare|duplicates", "GenAdditiveShare with a listing that repeats parties panicked in %s: %s", site, msg)
				return
			}
			if err == nil {
				ctx.Fail("refusal", "accepted-duplicates-below-threshold", "GenAdditiveShare accepted a listing of %d entries naming only %d distinct parties although the threshold is %d (%v)", len(shuffled), len(list), t, shuffled)
				return
			}
		}
	}
	if faults > 0 {
		ctx.Nontrivial = true
	}
	_ = fmt.Sprint
}
