package props

import (
	"fmt"
	"math"
	"math/big"

	"github.com/tuneinsight/lattigo/v6/core/rlwe"
	"github.com/tuneinsight/lattigo/v6/multiparty"
	"github.com/tuneinsight/lattigo/v6/multiparty/mpbgv"
	"github.com/tuneinsight/lattigo/v6/ring"
	"github.com/tuneinsight/lattigo/v6/schemes/bgv"
	"github.com/tuneinsight/lattigo/v6/utils/sampling"

	"verifsim/catalog"
	"verifsim/core"
	"verifsim/simnet"
)

// C16: collective key switching, share conversion, refresh and masked
// transform on the simulated network (integer scheme here, approximate scheme
// in c16_ckks.go).

type c16 struct{}

func (c16) ID() string { return "C16" }
func (c16) Runs(tier string) int {
	if tier == "thorough" {
		return 300000
	}
	return 1200
}
func (c16) Describe() core.Description {
	return core.Description{
		Level:  "exploration",
		Rule:   "per run: drawn scheme (integer with drawn plaintext modulus / approximate with drawn scale, slots, ring type), parameters (LogN 5-8, 2-5 Q primes), N in 1..8 parties (optionally a t-out-of-N deployment: set-up, crash of N-t parties, additive shares from the Combiner), input ciphertext at a drawn level after drawn homomorphic operations, drawn noise-flooding sigma; then 1-3 protocol instances drawn from {key switch to a shared key, collective decryption (zero key), public-key switch, encryption-to-shares + shares-to-encryption, refresh, masked transform with a drawn linear slot function and decode/encode flags}; every share travels over the simulated transport (delay/reordering, duplication, serialization through a chunked stream) and is aggregated in arrival order in a drawn aliasing form through a 1-2 level aggregator tree. Non-trivial = at least one transport fault fired and at least one message-model oracle evaluated; distinct = distinct choice traces",
		Real:   []string{"multiparty.KeySwitchProtocol / PublicKeySwitchProtocol", "mpbgv and mpckks EncToShare / ShareToEnc / Refresh / MaskedTransform protocols (+ShallowCopy)", "share serialization", "bgv/ckks encoder, encryptor, evaluator used to prepare inputs and to decode outputs", "multiparty.Thresholdizer/Combiner in threshold mode"},
		Stub:   []string{"network (simnet)", "aggregator bookkeeping", "entropy source (deterministic crypto/rand.Reader)", "plaintext reference model (Go integers / big floats)"},
		Assume: []string{"exact decoding (integer scheme) is asserted only when a hard noise bound leaves budget: 4*T*(measured input noise + N*share bound) < Q at the relevant level; otherwise the run is counted as budget-skipped", "transform functions are linear slot maps (masking works only for additive functions)", "when the output ciphertext is a distinct object the caller copies the input metadata into it first for the integer scheme (the usage shown by the library's own tests)", "smudging lower bound: empirical sigma over n coefficients >= (1-8/sqrt(2n)) * requested sigma"},
	}
}

func init() { core.Register(c16{}) }

// shareOps describes one share type to the generic network aggregation.
type shareOps struct {
	name  string
	clone func(any) any
	alloc func() any
	// agg computes out = a + b; out may alias a or b.
	agg func(a, b, out any) error
	eq  func(a, b any) (bool, string)
	// ser moves a share through its serialization; nil = not serializable here.
	ser func(ctx *core.RunCtx, s any) (any, bool)
}

type c16AggNode struct {
	id, parent, expect, cnt int
	acc                     any
	got                     map[int]bool
	ops                     *shareOps
	ctx                     *core.RunCtx
	failed                  *bool
	root                    *any
	serial                  int
}

type c16Leaf struct{}

func (c16Leaf) Deliver(*simnet.Net, *simnet.Msg) {}

func (a *c16AggNode) Deliver(net *simnet.Net, m *simnet.Msg) {
	if *a.failed {
		return
	}
	ctx := a.ctx
	if a.got[m.From] {
		return
	}
	a.got[m.From] = true
	a.cnt++
	s := m.Payload
	zeroStart := false
	if a.acc == nil && ctx.Ch.Chance("acc-starts-as-allocated-share", 1, 3) {
		// the aggregator starts from a share it allocated (all zero) and adds every share it receives to it
		a.acc = a.ops.alloc()
		zeroStart = true
		ctx.Count("probe.aggregation-into-allocated-accumulator", 1)
	}
	if a.acc == nil {
		if ctx.Ch.Bool("acc-by-reference") {
			a.acc = s
		} else {
			a.acc = a.ops.clone(s)
		}
	} else {
		form := ctx.Ch.Draw("agg-form", 3)
		if zeroStart {
			form = 0
		}
		var out any
		switch form {
		case 0:
			out = a.acc
		case 1:
			out = s
			ctx.Count("probe.aggregate-out-aliases-second-operand", 1)
		default:
			out = a.ops.alloc()
		}
		var err error
		pk, site, msg := core.Protect(func() { err = a.ops.agg(a.acc, s, out) })
		if pk {
			*a.failed = true
			ctx.Fail("panic", a.ops.name+".AggregateShares", "AggregateShares panicked in %s: %s", site, msg)
			return
		}
		if err != nil {
			*a.failed = true
			ctx.Fail("aggregate", a.ops.name+".AggregateShares|error", "aggregating two genuine shares failed: %v", err)
			return
		}
		a.acc = out
	}
	if a.cnt == a.expect {
		if a.parent >= 0 {
			p := a.acc
			if a.serial > 0 && a.ops.ser != nil && ctx.Ch.Bool("serialize-partial") {
				var ok bool
				if p, ok = a.ops.ser(ctx, p); !ok {
					*a.failed = true
					return
				}
			}
			net.Send(&simnet.Msg{From: a.id, To: a.parent, Kind: a.ops.name + "-partial", Payload: p})
		} else {
			*a.root = a.acc
		}
	}
}

// netAggregate sends the parties' shares over a simulated network to a 1-2
// level aggregator tree and returns what the root obtained. It also checks the
// result against the index-order aggregate with fresh outputs.
func netAggregate(ctx *core.RunCtx, ops *shareOps, shares []any) (any, bool) {
	ch := ctx.Ch
	n := len(shares)
	pristine := make([]any, n)
	for i, s := range shares {
		pristine[i] = ops.clone(s)
	}
	net := simnet.New(ctx, simnet.Config{MaxDelay: []int{0, 4, 40}[ch.Draw("max-delay", 3)], DupNum: ch.Draw("dup-rate", 3), DupDen: 10})
	nagg := 1
	if n >= 2 {
		nagg = 1 + ch.Draw("aggregators", 3)
	}
	serial := ch.Draw("serialize-mode", 3)
	failed := false
	var root any
	aggs := make([]*c16AggNode, nagg)
	for k := range aggs {
		aggs[k] = &c16AggNode{id: n + k, parent: -1, got: map[int]bool{}, ops: ops, ctx: ctx, failed: &failed, root: &root, serial: serial}
		if k > 0 {
			aggs[k].parent = n
		}
		net.Nodes[n+k] = aggs[k]
	}
	leaf := make([]int, n)
	for i := range shares {
		net.Nodes[i] = c16Leaf{}
		leaf[i] = n
		if nagg > 1 {
			leaf[i] = n + ch.Draw("leaf", nagg)
		}
		aggs[leaf[i]-n].expect++
	}
	for _, a := range aggs[1:] {
		if a.expect > 0 {
			aggs[0].expect++
		}
	}
	for _, i := range ch.Perm("send-order", n) {
		s := shares[i]
		if ops.ser != nil && (serial == 2 || serial == 1 && ch.Bool("serialize-this")) {
			var ok bool
			if s, ok = ops.ser(ctx, s); !ok {
				return nil, false
			}
		}
		net.Send(&simnet.Msg{From: i, To: leaf[i], Kind: ops.name, Payload: s})
	}
	if !net.Run() {
		ctx.Fail("liveness", ops.name+"|event-budget", "aggregation did not quiesce")
		return nil, false
	}
	if failed {
		return nil, false
	}
	if root == nil {
		ctx.Fail("liveness", ops.name+"|not-terminated", "the aggregation of %d shares did not terminate although every message was delivered", n)
		return nil, false
	}
	// reference: index order, fresh outputs
	ref := ops.clone(pristine[0])
	for i := 1; i < n; i++ {
		out := ops.alloc()
		if err := ops.agg(ref, pristine[i], out); err != nil {
			ctx.Harness("reference aggregation failed: %v", err)
		}
		ref = out
	}
	ctx.Count("oracle.aggregate-order-independence", 1)
	if ok, w := ops.eq(ref, root); !ok {
		ctx.Fail("aggregate", ops.name+"|order-dependence", "the aggregate obtained over the network differs from the index-order aggregate of the same %d shares: %s", n, w)
		return nil, false
	}
	return root, true
}

// --- deployment -------------------------------------------------------------------

type c16Deploy struct {
	ctx    *core.RunCtx
	params rlwe.Parameters
	N      int               // all parties
	sks    []*rlwe.SecretKey // keys the active parties use in protocols (additive shares in threshold mode)
	ideal  *rlwe.SecretKey   // sum of the original secrets
	n      int               // active parties
	B      int64
	sigma  float64 // requested noise flooding
	noise  ring.DistributionParameters
	shareB *big.Int // hard bound of one key-switch share's error
}

// newDeploy draws parties; in threshold mode runs the set-up and keeps t survivors.
func newDeploy(ctx *core.RunCtx, params rlwe.Parameters) *c16Deploy {
	ch := ctx.Ch
	d := &c16Deploy{ctx: ctx, params: params}
	d.N = 1 + ch.Draw("N", 8)
	kgen := rlwe.NewKeyGenerator(params)
	orig := make([]*rlwe.SecretKey, d.N)
	for i := range orig {
		orig[i] = kgen.GenSecretKeyNew()
	}
	d.ideal = addSK(params, orig)
	d.sks = orig
	if d.N >= 2 && ch.Chance("threshold-mode", 1, 3) {
		t := 1 + ch.Draw("t", d.N)
		ctx.Count("probe.threshold-deployment", 1)
		var moduli []uint64
		moduli = append(moduli, params.Q()...)
		moduli = append(moduli, params.P()...)
		pts := make([]multiparty.ShamirPublicPoint, d.N)
		for i := range pts {
			pts[i] = multiparty.ShamirPublicPoint(i + 1 + ch.Draw("point-offset", 3)*1000*(i+1))
		}
		thr := make([]multiparty.Thresholdizer, d.N)
		acc := make([]multiparty.ShamirSecretShare, d.N)
		for i := range thr {
			thr[i] = multiparty.NewThresholdizer(params)
			acc[i] = thr[i].AllocateThresholdSecretShare()
		}
		for i := 0; i < d.N; i++ {
			poly, err := thr[i].GenShamirPolynomial(t, orig[i])
			if err != nil {
				ctx.Harness("GenShamirPolynomial: %v", err)
			}
			for j := 0; j < d.N; j++ {
				tmp := thr[i].AllocateThresholdSecretShare()
				thr[i].GenShamirSecretShare(pts[j], poly, &tmp)
				if err := thr[j].AggregateShares(acc[j], tmp, &acc[j]); err != nil {
					ctx.Harness("threshold AggregateShares: %v", err)
				}
			}
		}
		// crash all but t parties
		perm := ch.Perm("survivors", d.N)
		alive := append([]int{}, perm[:t]...)
		sortInts(alive)
		ctx.Count("fault.party-crash", int64(d.N-t))
		ctx.Event("threshold deployment t=%d of N=%d, survivors %v", t, d.N, alive)
		var list []multiparty.ShamirPublicPoint
		for _, i := range alive {
			list = append(list, pts[i])
		}
		d.sks = nil
		for _, i := range alive {
			cmb := multiparty.NewCombiner(params, pts[i], pts, t)
			out := rlwe.NewSecretKey(params)
			if err := cmb.GenAdditiveShare(list, pts[i], acc[i], out); err != nil {
				ctx.Harness("GenAdditiveShare: %v", err)
			}
			d.sks = append(d.sks, out)
		}
		_ = moduli
	}
	d.n = len(d.sks)
	d.B = int64(params.NoiseBound())
	// noise flooding
	switch ch.Draw("sigma-kind", 3) {
	case 0:
		d.sigma = 3.2
	case 1:
		d.sigma = math.Exp2(float64(4 + ch.Draw("sigma-log", 12)))
	default:
		d.sigma = math.Exp2(float64(8 + ch.Draw("sigma-log2", 22)))
	}
	d.noise = ring.DiscreteGaussian{Sigma: d.sigma, Bound: 6 * d.sigma}
	eff := math.Sqrt(params.NoiseFreshSK()*params.NoiseFreshSK() + d.sigma*d.sigma)
	d.shareB, _ = new(big.Float).SetFloat64(math.Floor(6*eff + 1.5)).Int(nil)
	return d
}

// maybeCoeffDomain returns ct or, one time in three, the same ciphertext outside the NTT domain (the
// key-switching protocols accept both: they branch on the ciphertext's flag, not on the parameters').
func (d *c16Deploy) maybeCoeffDomain(ct *rlwe.Ciphertext) *rlwe.Ciphertext {
	if !ct.IsNTT || !d.ctx.Ch.Chance("coefficient-domain-input", 1, 3) {
		return ct
	}
	c := ct.CopyNew()
	r := d.params.RingQ().AtLevel(c.Level())
	for i := range c.Value {
		r.INTT(c.Value[i], c.Value[i])
	}
	c.IsNTT = false
	d.ctx.Count("probe.coefficient-domain-input", 1)
	return c
}

// ksOps are the share operations of the key-switch share type.
func (d *c16Deploy) ksOps(proto *multiparty.KeySwitchProtocol, level int) *shareOps {
	ringQ := d.params.RingQ()
	return &shareOps{
		name: "KeySwitchShare",
		clone: func(s any) any {
			return &multiparty.KeySwitchShare{Value: *s.(*multiparty.KeySwitchShare).Value.CopyNew()}
		},
		alloc: func() any { s := proto.AllocateShare(level); return &s },
		agg: func(a, b, out any) error {
			return proto.AggregateShares(*a.(*multiparty.KeySwitchShare), *b.(*multiparty.KeySwitchShare), out.(*multiparty.KeySwitchShare))
		},
		eq: func(a, b any) (bool, string) {
			return eqPoly(ringQ, a.(*multiparty.KeySwitchShare).Value, b.(*multiparty.KeySwitchShare).Value)
		},
		ser: func(ctx *core.RunCtx, s any) (any, bool) {
			return transit(ctx, s.(*multiparty.KeySwitchShare), new(multiparty.KeySwitchShare), true, "KeySwitchShare")
		},
	}
}

// smudge checks one recovered share error: hard upper bound and empirical sigma lower bound.
func (d *c16Deploy) smudge(e []*big.Int, what string, extra *big.Int) bool {
	ctx := d.ctx
	ctx.Count("oracle.smudging-noise", 1)
	bound := new(big.Int).Set(d.shareB)
	if extra != nil {
		bound.Add(bound, extra)
	}
	var sum, sumsq float64
	for _, v := range e {
		if v.CmpAbs(bound) > 0 {
			ctx.Fail("smudging", what+"|share-error-too-large", "a share's error (recovered with the party's secrets) has a coefficient %s beyond the hard bound %s of the declared noise", v.String(), bound.String())
			return false
		}
		f, _ := new(big.Float).SetInt(v).Float64()
		sum += f
		sumsq += f * f
	}
	n := float64(len(e))
	if n >= 64 {
		mean := sum / n
		sd := math.Sqrt(math.Max(sumsq/n-mean*mean, 0))
		thr := (1 - 8/math.Sqrt(2*n)) * d.sigma
		if sd < thr {
			ctx.Fail("smudging", what+"|noise-too-small", "a share carries noise of empirical sigma %.3g over %d coefficients, requested smudging sigma %.3g (threshold %.3g)", sd, len(e), d.sigma, thr)
			return false
		}
	}
	return true
}

// polyCentered returns the centred coefficients of p (coefficient domain).
func polyCentered(r *ring.Ring, p ring.Poly) []*big.Int {
	out := make([]*big.Int, r.N())
	for i := range out {
		out[i] = new(big.Int)
	}
	r.PolyToBigintCentered(p, 1, out)
	return out
}

// outputOwnsStorage: the ciphertext a protocol hands out is the caller's: it shares no storage with the common
// reference polynomial, which every party (and every later instance finalized from it) holds too.
func outputOwnsStorage(ctx *core.RunCtx, name string, out *rlwe.Ciphertext, crp any) bool {
	ctx.Count("oracle.output-owns-storage", 1)
	if shared, where := sharedBacking(out, crp); shared {
		ctx.Fail("aliasing", name+"|output-shares-storage-with-the-reference-polynomial", "%s: the output ciphertext shares storage with the common reference polynomial (%s): an in-place operation on it changes the polynomial, and with it every ciphertext finalized from it", name, where)
		return false
	}
	return true
}

// c16HugeSigma: noise flooding with a standard deviation of 2^58 to 2^67 (statistical security against the holder
// of 2^40 decryptions of 2^20-bit-precise values asks for such sizes): the bound of the distribution passes 2^64 and
// the sampler leaves the word-sized path. Only the noise of one key-switch share is examined (recovered with the
// secrets): hard upper bound and empirical lower bound, on a protocol object or on a copy of it.
func c16HugeSigma(ctx *core.RunCtx, params rlwe.Parameters) {
	ch := ctx.Ch
	logS := 58 + ch.Draw("huge-sigma-log", 10)
	level := -1
	for l := 0; l <= params.MaxLevelQ(); l++ {
		if params.RingQ().ModulusAtLevel[l].BitLen() > logS+6 {
			level = l
			break
		}
	}
	if level < 0 {
		ctx.Count("probe.huge-sigma-does-not-fit-the-modulus", 1)
		return
	}
	ctx.Nontrivial = true
	sigma := math.Exp2(float64(logS))
	ks, err := multiparty.NewKeySwitchProtocol(params, ring.DiscreteGaussian{Sigma: sigma, Bound: 6 * sigma})
	if err != nil {
		ctx.Fail("protocol", "KeySwitch|constructor", "NewKeySwitchProtocol with sigma 2^%d failed: %v", logS, err)
		return
	}
	if ch.Bool("proto-by-shallowcopy") {
		ks = ks.ShallowCopy()
	}
	kgen := rlwe.NewKeyGenerator(params)
	skIn, skOut := kgen.GenSecretKeyNew(), kgen.GenSecretKeyNew()
	ringQ := params.RingQ().AtLevel(level)
	ct := rlwe.NewCiphertext(params, 1, level)
	g := core.NewXoshiro(uint64(ch.Draw("msg-seed", 1<<16)))
	catalog.FillPoly(ringQ, ct.Value[0], g)
	catalog.FillPoly(ringQ, ct.Value[1], g)
	share := ks.AllocateShare(level)
	pk, site, msg := core.Protect(func() { ks.GenShare(skIn, skOut, ct, &share) })
	if pk {
		ctx.Fail("protocol", "KeySwitch.GenShare|panic", "GenShare with flooding sigma 2^%d panicked in %s: %s", logS, site, msg)
		return
	}
	c1 := ct.Value[1].CopyNew()
	if !ct.IsNTT {
		ringQ.NTT(*c1, *c1)
	}
	delta := ringQ.NewPoly()
	ringQ.Sub(skIn.Value.Q, skOut.Value.Q, delta)
	t := ringQ.NewPoly()
	ringQ.MulCoeffsMontgomery(*c1, delta, t)
	sv := ringQ.NewPoly()
	sv.CopyLvl(level, share.Value)
	if !ct.IsNTT {
		ringQ.NTT(sv, sv)
	}
	e := ringQ.NewPoly()
	ringQ.Sub(sv, t, e)
	ringQ.INTT(e, e)
	d := &c16Deploy{ctx: ctx, params: params, sigma: sigma}
	eff := math.Sqrt(params.NoiseFreshSK()*params.NoiseFreshSK() + sigma*sigma)
	d.shareB, _ = new(big.Float).SetFloat64(math.Floor(6*eff*(1+1e-9) + 1.5)).Int(nil)
	ctx.Count("probe.huge-flooding-sigma", 1)
	d.smudge(polyCentered(ringQ, e), "KeySwitch(huge sigma)", nil)
}

// --- key switch / public key switch (scheme independent) ----------------------------

// runKeySwitch switches ct (under the ideal secret) to a key shared among the
// active parties (or to zero: collective decryption) and checks the message model.
func (d *c16Deploy) runKeySwitch(ct *rlwe.Ciphertext, toZero bool) bool {
	ctx, ch, params := d.ctx, d.ctx.Ch, d.params
	// libCt is what the protocol is given. When the parties allocate their shares below the level of the
	// ciphertext, the protocol works at the level of the shares: the oracles then use the ciphertext cut down to
	// that level (the same message), the protocol still receives the ciphertext as it is.
	libCt := ct
	belowLevel := -1
	if ct.Level() > 0 && ch.Chance("share-below-ct-level", 1, 5) {
		belowLevel = ch.Draw("share-level-below", ct.Level())
		ct = libCt.CopyNew()
		ct.Resize(ct.Degree(), belowLevel)
		ctx.Count("probe.share-allocated-below-ciphertext-level", 1)
	}
	level := ct.Level()
	ringQ := params.RingQ().AtLevel(level)
	kgen := rlwe.NewKeyGenerator(params)
	outKeys := make([]*rlwe.SecretKey, d.n)
	for i := range outKeys {
		if toZero {
			outKeys[i] = rlwe.NewSecretKey(params)
		} else {
			outKeys[i] = kgen.GenSecretKeyNew()
		}
	}
	target := addSK(params, outKeys)
	base, err := multiparty.NewKeySwitchProtocol(params, d.noise)
	if err != nil {
		ctx.Fail("protocol", "KeySwitch|constructor", "NewKeySwitchProtocol rejected a Gaussian noise-flooding distribution: %v", err)
		return false
	}
	shareLevel := level
	if belowLevel < 0 && ch.Chance("share-above-ct-level", 1, 4) && level < params.MaxLevelQ() {
		shareLevel = level + 1 + ch.Draw("share-extra-level", params.MaxLevelQ()-level)
		ctx.Count("probe.share-allocated-above-ciphertext-level", 1)
	}
	ctSnap := hashPoly(hashPoly(1, libCt.Value[0]), libCt.Value[1])
	shares := make([]any, d.n)
	c1 := ringQ.NewPoly()
	c1.CopyLvl(level, ct.Value[1])
	if !ct.IsNTT {
		ringQ.NTT(c1, c1)
	}
	for i := 0; i < d.n; i++ {
		p := base
		if i > 0 && ch.Bool("proto-by-shallowcopy") {
			p = base.ShallowCopy()
		} else if i > 0 {
			p, _ = multiparty.NewKeySwitchProtocol(params, d.noise)
		}
		s := p.AllocateShare(shareLevel)
		skBefore := hashQP(d.sks[i].Value)
		pk, site, msg := core.Protect(func() { p.GenShare(d.sks[i], outKeys[i], libCt, &s) })
		if pk {
			ctx.Fail("panic", "KeySwitch.GenShare", "GenShare panicked in %s: %s", site, msg)
			return false
		}
		if s.Value.Level() != level {
			ctx.Fail("metadata", "KeySwitch.GenShare|share-level", "share generated for a level-%d ciphertext has level %d", level, s.Value.Level())
			return false
		}
		if hashQP(d.sks[i].Value) != skBefore || hashPoly(hashPoly(1, libCt.Value[0]), libCt.Value[1]) != ctSnap {
			ctx.Fail("inputs", "KeySwitch.GenShare|input-modified", "GenShare modified its secret key or the input ciphertext")
			return false
		}
		// smudging: e = share - c1*(s_in - s_out)
		delta := ringQ.NewPoly()
		ringQ.Sub(d.sks[i].Value.Q, outKeys[i].Value.Q, delta)
		t := ringQ.NewPoly()
		ringQ.MulCoeffsMontgomery(c1, delta, t)
		e := ringQ.NewPoly()
		sv := ringQ.NewPoly()
		sv.CopyLvl(level, s.Value)
		if !ct.IsNTT {
			ringQ.NTT(sv, sv)
		}
		ringQ.Sub(sv, t, e)
		ringQ.INTT(e, e)
		if !d.smudge(polyCentered(ringQ, e), "KeySwitch", nil) {
			return false
		}
		shares[i] = &s
	}
	if d.n >= 2 {
		if ok, _ := eqPoly(ringQ, shares[0].(*multiparty.KeySwitchShare).Value, shares[1].(*multiparty.KeySwitchShare).Value); ok {
			ctx.Fail("smudging", "KeySwitch|identical-shares", "two parties produced identical shares")
			return false
		}
	}
	agg, ok := netAggregate(ctx, d.ksOps(&base, level), shares)
	if !ok {
		return false
	}
	want := decryptRaw(params, ct, d.ideal)
	// output: in place, fresh, or a dirty ciphertext of another level / degree
	var out *rlwe.Ciphertext
	in := libCt
	switch ch.Draw("ks-out", 3) {
	case 0:
		in = libCt.CopyNew()
		out = in
	case 1:
		out = rlwe.NewCiphertext(params, 1, level)
	default:
		out = rlwe.NewCiphertext(params, 1+ch.Draw("dirty-degree", 2), ch.Draw("dirty-level", params.MaxLevelQ()+1))
		for i := range out.Value {
			catalog.FillPoly(params.RingQ().AtLevel(out.Level()), out.Value[i], core.NewXoshiro(uint64(i)+3))
		}
		ctx.Count("probe.dirty-output-ciphertext", 1)
	}
	pk, site, msg := core.Protect(func() { base.KeySwitch(in, *agg.(*multiparty.KeySwitchShare), out) })
	if pk {
		ctx.Fail("panic", "KeySwitch.KeySwitch", "KeySwitch panicked in %s: %s", site, msg)
		return false
	}
	if out.Level() != level || out.Degree() != 1 {
		ctx.Fail("metadata", "KeySwitch|output-shape", "output has level %d degree %d, input level %d", out.Level(), out.Degree(), level)
		return false
	}
	if !out.MetaData.Equal(ct.MetaData) {
		ctx.Fail("metadata", "KeySwitch|output-metadata", "output metadata differs from the input's")
		return false
	}
	if !outputOwnsMetadata(ctx, "KeySwitch", in, out) {
		return false
	}
	got := decryptRaw(params, out, target)
	bound := new(big.Int).Mul(d.shareB, big.NewInt(int64(d.n)))
	ctx.Count("oracle.message-model", 1)
	what := "KeySwitch"
	if toZero {
		what = "CollectiveDecryption"
	}
	ctx.Event("%s level=%d n=%d sigma=%g", what, level, d.n, d.sigma)
	if m := maxAbsDiff(got, want, ringQ.ModulusAtLevel[level]); m.Cmp(bound) > 0 {
		ctx.Fail("message", what+"|residual", "after the collective key switch (level %d, %d parties) the target key decrypts to something that differs from the original plaintext by %s > n*bound = %s", level, d.n, m.String(), bound.String())
		return false
	}
	return true
}

// outputOwnsMetadata: the result of a protocol is a ciphertext of its own. The deployment goes on using the input
// object (another encryption into it, a rescaling in place): that must not reach the output. Checked by changing
// the input's metadata after the call and restoring it.
func outputOwnsMetadata(ctx *core.RunCtx, name string, in, out *rlwe.Ciphertext) bool {
	if in == out || in.MetaData == nil || out.MetaData == nil {
		return true
	}
	ctx.Count("oracle.output-owns-metadata", 1)
	before := *out.MetaData.CopyNew()
	saved := *in.MetaData
	in.Scale = in.Scale.Mul(rlwe.NewScale(3))
	in.LogDimensions.Cols++
	in.IsBatched = !in.IsBatched
	same := out.MetaData.Equal(&before)
	*in.MetaData = saved
	if !same {
		ctx.Fail("aliasing", name+"|output-shares-metadata-with-input", "%s into a distinct ciphertext: changing the scale and dimensions of the input afterwards (as its next use does) changed those of the output - they share one metadata object", name)
		return false
	}
	return true
}

// runPublicKeySwitch re-encrypts ct under the public key of a new secret.
func (d *c16Deploy) runPublicKeySwitch(ct *rlwe.Ciphertext) bool {
	ctx, ch, params := d.ctx, d.ctx.Ch, d.params
	// as in runKeySwitch: shares allocated below the level of the ciphertext
	libCt := ct
	if ct.Level() > 0 && ch.Chance("share-below-ct-level", 1, 5) {
		ct = libCt.CopyNew()
		ct.Resize(ct.Degree(), ch.Draw("share-level-below", libCt.Level()))
		ctx.Count("probe.share-allocated-below-ciphertext-level", 1)
	}
	level := ct.Level()
	ringQ := params.RingQ().AtLevel(level)
	kgen := rlwe.NewKeyGenerator(params)
	skOut, pkOut := kgen.GenKeyPairNew()
	base, err := multiparty.NewPublicKeySwitchProtocol(params, d.noise)
	if err != nil {
		ctx.Fail("protocol", "PublicKeySwitch|constructor", "NewPublicKeySwitchProtocol rejected a Gaussian noise-flooding distribution: %v", err)
		return false
	}
	shares := make([]any, d.n)
	c1 := ringQ.NewPoly()
	c1.CopyLvl(level, ct.Value[1])
	if !ct.IsNTT {
		ringQ.NTT(c1, c1)
	}
	nRing := int64(params.N())
	// encryption of zero under pkOut: u*e_pk + e0 + e1*s' (+ rounding when P is used)
	encB := big.NewInt(2*nRing*d.B + d.B + 2*nRing + 4)
	for i := 0; i < d.n; i++ {
		p := base
		if i > 0 && ch.Bool("proto-by-shallowcopy") {
			p = base.ShallowCopy()
		} else if i > 0 {
			p, _ = multiparty.NewPublicKeySwitchProtocol(params, d.noise)
		}
		s := p.AllocateShare(level)
		pk, site, msg := core.Protect(func() { p.GenShare(d.sks[i], pkOut, libCt, &s) })
		if pk {
			ctx.Fail("panic", "PublicKeySwitch.GenShare", "GenShare panicked in %s: %s", site, msg)
			return false
		}
		// e = share0 + share1*s' - c1*s_i
		a, b := ringQ.NewPoly(), ringQ.NewPoly()
		a.CopyLvl(level, s.Value[0])
		b.CopyLvl(level, s.Value[1])
		if !ct.IsNTT {
			ringQ.NTT(a, a)
			ringQ.NTT(b, b)
		}
		t := ringQ.NewPoly()
		ringQ.MulCoeffsMontgomery(b, skOut.Value.Q, t)
		ringQ.Add(a, t, a)
		ringQ.MulCoeffsMontgomery(c1, d.sks[i].Value.Q, t)
		ringQ.Sub(a, t, a)
		ringQ.INTT(a, a)
		if !d.smudgePKS(polyCentered(ringQ, a), encB) {
			return false
		}
		shares[i] = &s
	}
	ops := &shareOps{
		name: "PublicKeySwitchShare",
		clone: func(s any) any {
			return &multiparty.PublicKeySwitchShare{Element: *s.(*multiparty.PublicKeySwitchShare).Element.CopyNew()}
		},
		alloc: func() any { s := base.AllocateShare(level); return &s },
		agg: func(a, b, out any) error {
			return base.AggregateShares(*a.(*multiparty.PublicKeySwitchShare), *b.(*multiparty.PublicKeySwitchShare), out.(*multiparty.PublicKeySwitchShare))
		},
		eq: func(a, b any) (bool, string) {
			x, y := a.(*multiparty.PublicKeySwitchShare), b.(*multiparty.PublicKeySwitchShare)
			if ok, w := eqPoly(ringQ, x.Value[0], y.Value[0]); !ok {
				return false, "component 0 " + w
			}
			return eqPoly(ringQ, x.Value[1], y.Value[1])
		},
		ser: func(ctx *core.RunCtx, s any) (any, bool) {
			return transit(ctx, s.(*multiparty.PublicKeySwitchShare), new(multiparty.PublicKeySwitchShare), true, "PublicKeySwitchShare")
		},
	}
	agg, ok := netAggregate(ctx, ops, shares)
	if !ok {
		return false
	}
	// a share made for the same ciphertext at a lower level (another instance of the protocol) that reaches
	// this aggregation is refused, as the secret-key switching protocol does, not added
	if level > 0 && ch.Chance("misrouted-share", 1, 3) {
		low := ct.CopyNew()
		low.Resize(low.Degree(), level-1)
		fs := base.AllocateShare(level - 1)
		pk, site, msg := core.Protect(func() { base.GenShare(d.sks[0], pkOut, low, &fs) })
		if pk {
			ctx.Fail("panic", "PublicKeySwitch.GenShare", "GenShare panicked in %s: %s", site, msg)
			return false
		}
		ctx.Count("fault.share-misrouted", 1)
		for order := 0; order < 2; order++ {
			a, b := any(shares[0]), any(&fs)
			if order == 1 {
				a, b = b, a
			}
			outS := base.AllocateShare(level)
			var err error
			pk, site, msg := core.Protect(func() { err = ops.agg(ops.clone(a), ops.clone(b), &outS) })
			ctx.Count("oracle.misrouted-share-rejected", 1)
			if !pk && err == nil {
				ctx.Fail("mismatch", "PublicKeySwitch.AggregateShares|combined", "a share of level %d was added to a share of level %d without an error (operand order %d)", level-1, level, order)
				return false
			}
			_, _ = site, msg
		}
	}
	want := decryptRaw(params, ct, d.ideal)
	out := rlwe.NewCiphertext(params, 1, level)
	in := libCt
	if ch.Bool("pks-in-place") {
		in = libCt.CopyNew()
		out = in
	}
	pk, site, msg := core.Protect(func() { base.KeySwitch(in, *agg.(*multiparty.PublicKeySwitchShare), out) })
	if pk {
		ctx.Fail("panic", "PublicKeySwitch.KeySwitch", "KeySwitch panicked in %s: %s", site, msg)
		return false
	}
	if out.Level() != level || !out.MetaData.Equal(ct.MetaData) {
		ctx.Fail("metadata", "PublicKeySwitch|output", "output level %d (input %d) or metadata differ from the input's", out.Level(), level)
		return false
	}
	if !outputOwnsMetadata(ctx, "PublicKeySwitch", in, out) {
		return false
	}
	got := decryptRaw(params, out, skOut)
	bound := new(big.Int).Add(d.shareB, encB)
	bound.Mul(bound, big.NewInt(int64(d.n)))
	ctx.Count("oracle.message-model", 1)
	ctx.Event("PublicKeySwitch level=%d n=%d sigma=%g", level, d.n, d.sigma)
	if m := maxAbsDiff(got, want, ringQ.ModulusAtLevel[level]); m.Cmp(bound) > 0 {
		ctx.Fail("message", "PublicKeySwitch|residual", "after the collective public-key switch (level %d, %d parties) the target secret decrypts to something that differs from the original plaintext by %s > hard bound %s", level, d.n, m.String(), bound.String())
		return false
	}
	return true
}

func (d *c16Deploy) smudgePKS(e []*big.Int, encB *big.Int) bool {
	// the public-key-switch sampler uses the requested distribution as is
	save := d.shareB
	d.shareB, _ = new(big.Float).SetFloat64(math.Floor(6*d.sigma + 1.5)).Int(nil)
	ok := d.smudge(e, "PublicKeySwitch", encB)
	d.shareB = save
	return ok
}

// --- integer scheme -------------------------------------------------------------------

type c16BGV struct {
	params bgv.Parameters
	enc    *bgv.Encoder
	T      uint64
}

var c16PlainModuli = []uint64{257, 12289, 65537, 786433, 65929217}

func (c16) Run(ctx *core.RunCtx) {
	ch := ctx.Ch
	if ch.Chance("scheme-ckks", 1, 2) {
		c16RunCKKS(ctx)
		return
	}
	// parameters
	var bp bgv.Parameters
	for try := 0; ; try++ {
		spec := catalog.DrawRLWESpec(ch, catalog.SpecOpts{MinLogN: 5, MaxLogN: 8, MinQ: 2, MaxQ: 5, MinP: 0, MaxP: 2, MinBits: 34, MaxBits: 58})
		T := c16PlainModuli[ch.Draw("T", len(c16PlainModuli))]
		if T == 257 && spec.LogN > 7 {
			T = 12289
		}
		key := fmt.Sprintf("bgv/%s/T%d", spec.Key(), T)
		c := ctx.Cached(key, func(*core.Xoshiro) any {
			p, err := bgv.NewParametersFromLiteral(bgv.ParametersLiteral{LogN: spec.LogN, LogQ: spec.LogQ, LogP: spec.LogP, PlaintextModulus: T})
			if err != nil {
				return err
			}
			return &p
		})
		if p, ok := c.(*bgv.Parameters); ok {
			bp = *p
			ctx.Event("config bgv %s T=%d", spec, T)
			break
		}
		if try > 20 {
			ctx.Harness("no bgv parameter set: %v", c)
		}
	}
	params := bp.Parameters
	if ch.Chance("huge-flooding-sigma", 1, 6) {
		c16HugeSigma(ctx, params)
		return
	}
	d := newDeploy(ctx, params)
	sc := &c16BGV{params: bp, enc: bgv.NewEncoder(bp), T: bp.PlaintextModulus()}
	// input: a known slot vector, encrypted under the ideal secret, optionally processed
	slots := bp.MaxSlots()
	m := make([]uint64, slots)
	g := core.NewXoshiro(uint64(ch.Draw("msg-seed", 1<<16)))
	for i := range m {
		m[i] = g.Next() % sc.T
	}
	level := ch.Draw("input-level", params.MaxLevelQ()+1)
	pt := bgv.NewPlaintext(bp, params.MaxLevelQ())
	if ch.Bool("non-default-scale") {
		pt.Scale = bp.NewScale(2 + uint64(ch.Draw("scale-val", 1000)))
	}
	if err := sc.enc.Encode(m, pt); err != nil {
		ctx.Harness("encode: %v", err)
	}
	ct, err := bgv.NewEncryptor(bp, d.ideal).EncryptNew(pt)
	if err != nil {
		ctx.Harness("encrypt: %v", err)
	}
	eval := bgv.NewEvaluator(bp, nil)
	nops := ch.Draw("pre-ops", 3)
	for k := 0; k < nops; k++ {
		switch ch.Draw("pre-op", 2) {
		case 0: // add a constant vector
			c := make([]uint64, slots)
			for i := range c {
				c[i] = g.Next() % sc.T
				m[i] = (m[i] + c[i]) % sc.T
			}
			if err := eval.Add(ct, c, ct); err != nil {
				ctx.Harness("pre-op add: %v", err)
			}
		default: // multiply by a small constant vector (changes the scale bookkeeping only through the plaintext)
			c := make([]uint64, slots)
			for i := range c {
				c[i] = g.Next() % 7
				m[i] = (m[i] * c[i]) % sc.T
			}
			if err := eval.Mul(ct, c, ct); err != nil {
				ctx.Harness("pre-op mul: %v", err)
			}
		}
	}
	for ct.Level() > level {
		if ct.Level()-level >= 1 && ch.Bool("rescale-else-drop") {
			if err := eval.Rescale(ct, ct); err != nil {
				eval.DropLevel(ct, 1)
			}
		} else {
			eval.DropLevel(ct, 1)
		}
	}
	level = ct.Level()
	// measured input noise (the simulator knows the ideal secret)
	inNoise, ok := sc.noiseOf(ctx, ct, d.ideal, m)
	if !ok {
		// the drawn pre-processing exhausted the noise budget of the drawn level: nothing to refresh
		ctx.Count("probe.prepared-input-out-of-budget", 1)
		return
	}
	ctx.Event("input level=%d scale=%v noise=%s N=%d active=%d sigma=%g", level, ct.Scale.Uint64(), inNoise.String(), d.N, d.n, d.sigma)
	faults0 := func() int64 {
		return ctx.Stats["fault.delay-reorder"] + ctx.Stats["fault.duplicate-delivery"] + ctx.Stats["fault.share-serialized-in-transit"] + ctx.Stats["fault.party-crash"]
	}
	ninst := 1 + ch.Draw("ninst", 3)
	for k := 0; k < ninst; k++ {
		okk := true
		switch ch.Weighted("protocol", []int{2, 2, 2, 3, 3, 3}) {
		case 0:
			okk = d.runKeySwitch(d.maybeCoeffDomain(ct), false)
		case 1:
			okk = d.runKeySwitch(d.maybeCoeffDomain(ct), true)
		case 2:
			okk = d.runPublicKeySwitch(d.maybeCoeffDomain(ct))
		case 3:
			okk = sc.runE2S(d, ct, m, inNoise)
		case 4:
			okk = sc.runRefresh(d, ct, m, inNoise, false)
		default:
			okk = sc.runRefresh(d, ct, m, inNoise, true)
		}
		if !okk {
			return
		}
	}
	if faults0() > 0 && ctx.Stats["oracle.message-model"] > 0 {
		ctx.Nontrivial = true
	}
}

// noiseOf measures the noise of ct w.r.t. the expected slot vector; ok=false if it does not decode to it.
func (sc *c16BGV) noiseOf(ctx *core.RunCtx, ct *rlwe.Ciphertext, sk *rlwe.SecretKey, m []uint64) (*big.Int, bool) {
	bp := sc.params
	level := ct.Level()
	ringQ := bp.RingQ().AtLevel(level)
	pt := bgv.NewPlaintext(bp, level)
	*pt.MetaData = *ct.MetaData
	if err := sc.enc.Encode(m, pt); err != nil {
		ctx.Harness("encode expected: %v", err)
	}
	want := ringQ.NewPoly()
	want.CopyLvl(level, pt.Value)
	if pt.IsNTT {
		ringQ.INTT(want, want)
	}
	raw := decryptRaw(bp.Parameters, ct, sk)
	wantB := polyCentered(ringQ, want)
	noise := maxAbsDiff(raw, wantB, ringQ.ModulusAtLevel[level])
	// decode check
	have := make([]uint64, len(m))
	dec := bgv.NewDecryptor(bp, sk).DecryptNew(ct)
	if err := sc.enc.Decode(dec, have); err != nil {
		return noise, false
	}
	for i := range m {
		if have[i] != m[i] {
			return noise, false
		}
	}
	return noise, true
}

// budget: exactness is demanded when 4*T*bound < Q_level.
func (sc *c16BGV) budget(level int, bound *big.Int) bool {
	x := new(big.Int).Mul(bound, new(big.Int).SetUint64(4*sc.T))
	return x.Cmp(sc.params.RingQ().ModulusAtLevel[level]) < 0
}

func (sc *c16BGV) decodeEq(ctx *core.RunCtx, ct *rlwe.Ciphertext, sk *rlwe.SecretKey, want []uint64) (bool, string) {
	have := make([]uint64, len(want))
	var err error
	pk, site, msg := core.Protect(func() { err = sc.enc.Decode(bgv.NewDecryptor(sc.params, sk).DecryptNew(ct), have) })
	if pk {
		return false, fmt.Sprintf("decoding panicked in %s: %s", site, msg)
	}
	if err != nil {
		return false, fmt.Sprintf("decoding failed: %v", err)
	}
	for i := range want {
		if have[i] != want[i] {
			return false, fmt.Sprintf("slot %d holds %d, expected %d", i, have[i], want[i])
		}
	}
	return true, ""
}

// runE2S: encryption-to-shares then shares-to-encryption.
func (sc *c16BGV) runE2S(d *c16Deploy, ct *rlwe.Ciphertext, m []uint64, inNoise *big.Int) bool {
	ctx, ch, bp := d.ctx, d.ctx.Ch, sc.params
	params := d.params
	level := ct.Level()
	ringQ := params.RingQ().AtLevel(level)
	ringT := bp.RingT()
	e2s0, err := mpbgv.NewEncToShareProtocol(bp, d.noise)
	if err != nil {
		ctx.Fail("protocol", "EncToShare|constructor", "NewEncToShareProtocol failed: %v", err)
		return false
	}
	s2e0, err := mpbgv.NewShareToEncProtocol(bp, d.noise)
	if err != nil {
		ctx.Fail("protocol", "ShareToEnc|constructor", "NewShareToEncProtocol failed: %v", err)
		return false
	}
	e2s := make([]mpbgv.EncToShareProtocol, d.n)
	s2e := make([]mpbgv.ShareToEncProtocol, d.n)
	secret := make([]multiparty.AdditiveShare, d.n)
	pub := make([]any, d.n)
	c1 := ringQ.NewPoly()
	c1.CopyLvl(level, ct.Value[1])
	for i := 0; i < d.n; i++ {
		if i == 0 {
			e2s[i], s2e[i] = e2s0, s2e0
		} else if ch.Bool("proto-by-shallowcopy") {
			e2s[i], s2e[i] = e2s0.ShallowCopy(), s2e0.ShallowCopy()
		} else {
			e2s[i], _ = mpbgv.NewEncToShareProtocol(bp, d.noise)
			s2e[i], _ = mpbgv.NewShareToEncProtocol(bp, d.noise)
		}
		secret[i] = mpbgv.NewAdditiveShare(bp)
		ps := e2s[i].AllocateShare(level)
		pk, site, msg := core.Protect(func() { e2s[i].GenShare(d.sks[i], ct, &secret[i], &ps) })
		if pk {
			ctx.Fail("panic", "EncToShare.GenShare", "GenShare panicked in %s: %s", site, msg)
			return false
		}
		// smudging: e = public + encode(M_i) - c1*s_i
		mq := ringQ.NewPoly()
		sc.enc.RingT2Q(level, true, secret[i].Value, mq)
		ringQ.NTT(mq, mq)
		e := ringQ.NewPoly()
		ringQ.Add(ps.Value, mq, e)
		t := ringQ.NewPoly()
		ringQ.MulCoeffsMontgomery(c1, d.sks[i].Value.Q, t)
		ringQ.Sub(e, t, e)
		ringQ.INTT(e, e)
		if !d.smudge(polyCentered(ringQ, e), "EncToShare", nil) {
			return false
		}
		pub[i] = &ps
	}
	agg, ok := netAggregate(ctx, d.ksOps(&e2s0.KeySwitchProtocol, level), pub)
	if !ok {
		return false
	}
	// party 0 folds the public aggregate into its share
	fin := mpbgv.NewAdditiveShare(bp)
	pk, site, msg := core.Protect(func() { e2s[0].GetShare(&secret[0], *agg.(*multiparty.KeySwitchShare), ct, &fin) })
	if pk {
		ctx.Fail("panic", "EncToShare.GetShare", "GetShare panicked in %s: %s", site, msg)
		return false
	}
	secret[0] = fin
	total := new(big.Int).Mul(d.shareB, big.NewInt(int64(d.n)))
	total.Add(total, inNoise)
	exact := sc.budget(level, total)
	sum := ringT.NewPoly()
	for i := range secret {
		ringT.Add(sum, secret[i].Value, sum)
	}
	have := make([]uint64, len(m))
	if err := sc.enc.DecodeRingT(sum, ct.Scale, have); err != nil {
		ctx.Fail("message", "EncToShare|decode", "decoding the sum of the additive shares failed: %v", err)
		return false
	}
	ctx.Event("EncToShare level=%d n=%d exact=%v", level, d.n, exact)
	if exact {
		ctx.Count("oracle.message-model", 1)
		for i := range m {
			if have[i] != m[i] {
				ctx.Fail("message", "EncToShare|shares-sum", "the additive shares of %d parties do not sum to the encrypted message modulo t: slot %d is %d, expected %d (input level %d, noise budget left)", d.n, i, have[i], m[i], level)
				return false
			}
		}
	} else {
		ctx.Count("probe.exactness-budget-skipped", 1)
		return true
	}
	// shares back to an encryption: at the maximum level or, one run in three, at a level below it
	// (the level of the common reference polynomial decides), into a receiver allocated at that
	// level or, one time in two, at another one (GetEncryption gives the receiver the level of
	// the aggregate)
	maxLevel := params.MaxLevelQ()
	recvLevel := maxLevel
	if maxLevel > 0 && ch.Chance("s2e-below-max", 1, 3) {
		maxLevel = ch.Draw("s2e-level", maxLevel)
		ctx.Count("probe.s2e-below-max", 1)
	}
	if ch.Bool("s2e-receiver-at-its-level") {
		recvLevel = maxLevel
	} else if recvLevel = ch.Draw("s2e-recv-level", params.MaxLevelQ()+1); recvLevel != maxLevel {
		ctx.Count("probe.s2e-receiver-other-level", 1)
	}
	crsKey := make([]byte, 32)
	core.NewXoshiro(uint64(ch.Draw("crs-key", 1<<16))).Fill(crsKey)
	crs, _ := sampling.NewKeyedPRNG(crsKey)
	crp := s2e0.SampleCRP(maxLevel, crs)
	c0 := make([]any, d.n)
	for i := 0; i < d.n; i++ {
		cs := s2e[i].AllocateShare(maxLevel)
		var err error
		pk, site, msg := core.Protect(func() { err = s2e[i].GenShare(d.sks[i], crp, secret[i], &cs) })
		if pk || err != nil {
			ctx.Fail("protocol", "ShareToEnc.GenShare", "GenShare failed: panic=%v %s %s err=%v", pk, site, msg, err)
			return false
		}
		// smudging of the re-encryption share: e = share + crp*s_i - encode(M_i)
		{
			rq := params.RingQ().AtLevel(maxLevel)
			t := rq.NewPoly()
			rq.MulCoeffsMontgomery(crp.Value, d.sks[i].Value.Q, t)
			enc := rq.NewPoly()
			sc.enc.RingT2Q(maxLevel, true, secret[i].Value, enc)
			rq.NTT(enc, enc)
			e := rq.NewPoly()
			e.CopyLvl(maxLevel, cs.Value)
			rq.Add(e, t, e)
			rq.Sub(e, enc, e)
			rq.INTT(e, e)
			if !d.smudge(polyCentered(rq, e), "ShareToEnc", nil) {
				return false
			}
		}
		c0[i] = &cs
	}
	agg2, ok := netAggregate(ctx, d.ksOps(&s2e0.KeySwitchProtocol, maxLevel), c0)
	if !ok {
		return false
	}
	out := bgv.NewCiphertext(bp, 1, recvLevel)
	*out.MetaData = *ct.MetaData
	var gerr error
	pk, site, msg = core.Protect(func() { gerr = s2e0.GetEncryption(*agg2.(*multiparty.KeySwitchShare), crp, out) })
	if pk || gerr != nil {
		ctx.Fail("protocol", "ShareToEnc.GetEncryption", "GetEncryption failed: panic=%v %s %s err=%v", pk, site, msg, gerr)
		return false
	}
	if !outputOwnsStorage(ctx, "ShareToEnc.GetEncryption", out, &crp) {
		return false
	}
	if out.Level() != maxLevel {
		ctx.Fail("metadata", "ShareToEnc|output-level", "re-encryption is at level %d, the aggregate and the reference polynomial are at level %d", out.Level(), maxLevel)
		return false
	}
	b2 := new(big.Int).Mul(d.shareB, big.NewInt(int64(d.n)))
	if sc.budget(maxLevel, b2) {
		ctx.Count("oracle.message-model", 1)
		if ok, w := sc.decodeEq(ctx, out, d.ideal, m); !ok {
			ctx.Fail("message", "ShareToEnc|re-encryption", "shares-to-encryption of the shares of %d parties does not give a ciphertext of the message: %s", d.n, w)
			return false
		}
	} else {
		ctx.Count("probe.exactness-budget-skipped", 1)
	}
	return true
}

// linear slot functions for the masked transform.
type c16Lin struct {
	mul  []uint64
	perm []int
	desc string
}

func drawLin(ch *core.Chooser, slots int, T uint64) *c16Lin {
	f := &c16Lin{mul: make([]uint64, slots), perm: make([]int, slots)}
	g := core.NewXoshiro(uint64(ch.Draw("lin-seed", 1<<16)))
	kind := ch.Draw("lin-kind", 4)
	for i := range f.mul {
		f.mul[i] = 1
		f.perm[i] = i
	}
	switch kind {
	case 0:
		f.desc = "identity"
	case 1:
		k := 2 + g.Next()%9
		for i := range f.mul {
			f.mul[i] = k
		}
		f.desc = fmt.Sprintf("scalar*%d", k)
	case 2:
		for i := range f.mul {
			f.mul[i] = g.Next() % T
		}
		f.desc = "slotwise-multiplication"
	default:
		for i := range f.perm {
			f.perm[i] = int(g.Next() % uint64(slots))
		}
		f.desc = "slot-selection"
	}
	return f
}

func (f *c16Lin) apply(v []uint64, T uint64) {
	out := make([]uint64, len(v))
	for i := range v {
		out[i] = mulMod(v[f.perm[i]], f.mul[i], T)
	}
	copy(v, out)
}

func mulMod(a, b, m uint64) uint64 {
	return new(big.Int).Mod(new(big.Int).Mul(new(big.Int).SetUint64(a), new(big.Int).SetUint64(b)), new(big.Int).SetUint64(m)).Uint64()
}

// runRefresh: collective refresh (transform=nil) or masked transform.
func (sc *c16BGV) runRefresh(d *c16Deploy, ct *rlwe.Ciphertext, m []uint64, inNoise *big.Int, withTransform bool) bool {
	ctx, ch, bp := d.ctx, d.ctx.Ch, sc.params
	params := d.params
	level := ct.Level()
	ringQ := params.RingQ().AtLevel(level)
	minLevel := ch.Draw("e2s-level", level+1) // decryption level <= ciphertext level
	// output parameters: the input ones, or (parameter switching) another modulus chain over the same ring
	// degree and plaintext modulus, with the parties' secrets for that chain
	bpOut, sksOut, idealOut, scOut := bp, d.sks, d.ideal, sc
	if ch.Chance("switch-parameters", 1, 3) {
		spec := catalog.DrawRLWESpec(ch, catalog.SpecOpts{MinLogN: bp.LogN(), MaxLogN: bp.LogN(), MinQ: 1, MaxQ: 4, MinP: 0, MaxP: 1, MinBits: 36, MaxBits: 58})
		key := fmt.Sprintf("bgv/%s/T%d", spec.Key(), sc.T)
		c := ctx.Cached(key, func(*core.Xoshiro) any {
			p, err := bgv.NewParametersFromLiteral(bgv.ParametersLiteral{LogN: spec.LogN, LogQ: spec.LogQ, LogP: spec.LogP, PlaintextModulus: sc.T})
			if err != nil {
				return err
			}
			return &p
		})
		if p, ok := c.(*bgv.Parameters); ok {
			bpOut = *p
			kgen := rlwe.NewKeyGenerator(bpOut.Parameters)
			sksOut = make([]*rlwe.SecretKey, d.n)
			for i := range sksOut {
				sksOut[i] = kgen.GenSecretKeyNew()
			}
			idealOut = addSK(bpOut.Parameters, sksOut)
			scOut = &c16BGV{params: bpOut, enc: bgv.NewEncoder(bpOut), T: sc.T}
			ctx.Count("probe.parameter-switching", 1)
		}
	}
	paramsOut := bpOut.Parameters
	outLevel := ch.Draw("output-level", paramsOut.MaxLevelQ()+1)
	var tf *mpbgv.MaskedTransformFunc
	want := append([]uint64{}, m...)
	name := "Refresh"
	var lin *c16Lin
	rawOut := false
	var funcInputAbove uint64
	if withTransform {
		name = "MaskedTransform"
		lin = drawLin(ch, len(m), sc.T)
		tf = &mpbgv.MaskedTransformFunc{Decode: true, Encode: true, Func: func(c []uint64) {
			// the function is documented to receive integers modulo the plaintext modulus
			for _, v := range c {
				if v >= sc.T && funcInputAbove == 0 {
					funcInputAbove = v
				}
			}
			lin.apply(c, sc.T)
		}}
		if lin.desc == "identity" || lin.desc[:6] == "scalar" {
			// coefficient-domain application is also legitimate for scalar maps
			if ch.Bool("transform-no-decode") {
				tf.Decode, tf.Encode = false, false
				ctx.Count("probe.transform-without-decode-encode", 1)
			}
		}
		lin.apply(want, sc.T)
		if tf.Decode && ch.Chance("transform-mixed-flags", 1, 4) {
			// the flags both ways: a function of the decoded slots whose output is taken as the plaintext
			// polynomial as it is (decode only), or a function of the plaintext polynomial whose output is encoded
			// (encode only). The oracle works on the plaintext polynomial modulo T ("raw"), which needs no reading
			// of the output's metadata in the first case.
			if ch.Bool("decode-only") {
				tf.Encode = false
				rawOut = true
				ctx.Count("probe.transform-decode-only", 1)
			} else {
				tf.Decode = false
				pt := bgv.NewPlaintext(bp, ct.Level())
				*pt.MetaData = *ct.MetaData
				pt.IsNTT = true
				if err := sc.enc.Encode(m, pt); err != nil {
					ctx.Harness("encode: %v", err)
				}
				want = sc.rawOf(ctx, pt)
				lin.apply(want, sc.T)
				ctx.Count("probe.transform-encode-only", 1)
			}
		}
	}
	mt0, err := mpbgv.NewMaskedTransformProtocol(bp, bpOut, d.noise)
	if err != nil {
		ctx.Fail("protocol", name+"|constructor", "NewMaskedTransformProtocol failed: %v", err)
		return false
	}
	crsKey := make([]byte, 32)
	core.NewXoshiro(uint64(ch.Draw("crs-key", 1<<16))).Fill(crsKey)
	crs, _ := sampling.NewKeyedPRNG(crsKey)
	crp := mt0.SampleCRP(outLevel, crs)
	shares := make([]any, d.n)
	ctSnap := hashPoly(hashPoly(1, ct.Value[0]), ct.Value[1])
	mdSnap := *ct.MetaData
	for i := 0; i < d.n; i++ {
		p := mt0
		if i > 0 && ch.Bool("proto-by-shallowcopy") {
			p = mt0.ShallowCopy()
		} else if i > 0 {
			p, _ = mpbgv.NewMaskedTransformProtocol(bp, bpOut, d.noise)
		}
		s := p.AllocateShare(minLevel, outLevel)
		var err error
		pk, site, msg := core.Protect(func() { err = p.GenShare(d.sks[i], sksOut[i], ct, crp, tf, &s) })
		if pk || err != nil {
			ctx.Fail("protocol", name+".GenShare", "GenShare (e2s level %d, output level %d, ct level %d) failed: panic=%v %s %s err=%v", minLevel, outLevel, level, pk, site, msg, err)
			return false
		}
		shares[i] = &s
	}
	if hashPoly(hashPoly(1, ct.Value[0]), ct.Value[1]) != ctSnap || !mdSnap.Equal(ct.MetaData) {
		ctx.Fail("inputs", name+".GenShare|input-modified", "GenShare modified the input ciphertext")
		return false
	}
	_ = ringQ
	ops := &shareOps{
		name: "RefreshShare",
		clone: func(s any) any {
			x := s.(*multiparty.RefreshShare)
			return &multiparty.RefreshShare{EncToShareShare: multiparty.KeySwitchShare{Value: *x.EncToShareShare.Value.CopyNew()},
				ShareToEncShare: multiparty.KeySwitchShare{Value: *x.ShareToEncShare.Value.CopyNew()}, MetaData: *x.MetaData.CopyNew()}
		},
		alloc: func() any { s := mt0.AllocateShare(minLevel, outLevel); return &s },
		agg: func(a, b, out any) error {
			err := mt0.AggregateShares(*a.(*multiparty.RefreshShare), *b.(*multiparty.RefreshShare), out.(*multiparty.RefreshShare))
			return err
		},
		eq: func(a, b any) (bool, string) {
			x, y := a.(*multiparty.RefreshShare), b.(*multiparty.RefreshShare)
			if ok, w := eqPoly(params.RingQ(), x.EncToShareShare.Value, y.EncToShareShare.Value); !ok {
				return false, "e2s part " + w
			}
			return eqPoly(paramsOut.RingQ(), x.ShareToEncShare.Value, y.ShareToEncShare.Value)
		},
		ser: func(ctx *core.RunCtx, s any) (any, bool) {
			return transit(ctx, s.(*multiparty.RefreshShare), new(multiparty.RefreshShare), true, "RefreshShare")
		},
	}
	agg, ok := netAggregate(ctx, ops, shares)
	if !ok {
		return false
	}
	ra := agg.(*multiparty.RefreshShare)
	if !ra.MetaData.Equal(ct.MetaData) {
		// every share carries the metadata of the ciphertext; the aggregate, whatever receiver it was formed in
		// (one of the operands or a newly allocated share, as an aggregator without a share of its own does),
		// is a share of the same refresh and the finalisation checks its metadata
		ctx.Fail("aggregate", name+"|RefreshShare-metadata-lost", "the aggregate of %d refresh shares does not carry the metadata of the shares (scale %v vs %v): Transform / Finalize would reject it", d.n, &ra.MetaData.Scale.Value, &ct.MetaData.Scale.Value)
		return false
	}
	// budget of the decryption step (at minLevel) and of the re-encryption (at outLevel)
	b1 := new(big.Int).Mul(d.shareB, big.NewInt(int64(d.n)))
	b1.Add(b1, inNoise)
	b2 := new(big.Int).Mul(d.shareB, big.NewInt(int64(d.n)))
	exact := sc.budget(minLevel, b1) && scOut.budget(outLevel, b2)
	in := ct.CopyNew()
	out := in
	if ch.Bool("distinct-output") || paramsOut.MaxLevelQ() != params.MaxLevelQ() || !paramsOut.Equal(&params) {
		// a newly allocated receiver; its metadata is whatever the constructor put there, or that of another ciphertext
		out = bgv.NewCiphertext(bpOut, 1, ch.Draw("out-alloc-level", paramsOut.MaxLevelQ()+1))
		switch ch.Draw("out-metadata", 3) {
		case 0:
			*out.MetaData = *ct.MetaData
		case 1:
			out.Scale = bp.NewScale(2 + uint64(ch.Draw("out-scale-val", 1000)))
			ctx.Count("probe.receiver-with-other-scale", 1)
		default:
			ctx.Count("probe.receiver-with-default-metadata", 1)
		}
	}
	var terr error
	pk, site, msg := core.Protect(func() { terr = mt0.Transform(in, tf, crp, *ra, out) })
	if pk {
		ctx.Fail("panic", name+".Transform", "Transform panicked in %s: %s", site, msg)
		return false
	}
	if terr != nil {
		ctx.Fail("protocol", name+".Transform|error", "Transform failed on valid inputs (ct level %d, e2s level %d, output level %d): %v", level, minLevel, outLevel, terr)
		return false
	}
	if !outputOwnsStorage(ctx, name+".Transform", out, &crp) {
		return false
	}
	if funcInputAbove != 0 {
		ctx.Fail("contract", name+"|function-input-not-reduced", "the transform function (decode=%v) was handed the value %d, which is not an integer modulo the plaintext modulus %d (ciphertext level %d, decryption level %d)", tf.Decode, funcInputAbove, sc.T, level, minLevel)
		return false
	}
	ctx.Event("%s ct-level=%d e2s-level=%d out-level=%d n=%d f=%v exact=%v", name, level, minLevel, outLevel, d.n, lin, exact)
	if !outputOwnsMetadata(ctx, name, in, out) {
		return false
	}
	if out.Level() != outLevel {
		ctx.Fail("metadata", name+"|output-level", "output is at level %d, requested %d", out.Level(), outLevel)
		return false
	}
	if !exact {
		ctx.Count("probe.exactness-budget-skipped", 1)
		return true
	}
	ctx.Count("oracle.message-model", 1)
	if rawOut {
		have := scOut.rawOf(ctx, bgv.NewDecryptor(scOut.params, idealOut).DecryptNew(out))
		for i := range want {
			if have[i] != want[i] {
				ctx.Fail("message", name+"|result-decode-only", "%s by %d parties with a transform that decodes and does not encode (f=%v): coefficient %d of the output plaintext modulo T is %d, f(message) has %d there", name, d.n, lin, i, have[i], want[i])
				return false
			}
		}
		return true
	}
	if ok, w := scOut.decodeEq(ctx, out, idealOut, want); !ok {
		ctx.Fail("message", name+"|result", "%s by %d parties (input level %d, decryption level %d, output level %d, f=%v, decode=%v encode=%v): %s", name, d.n, level, minLevel, outLevel, lin, tf != nil && tf.Decode, tf != nil && tf.Encode, w)
		return false
	}
	return true
}

// rawOf returns the plaintext polynomial modulo T (no scale removed, no decoding).
func (sc *c16BGV) rawOf(ctx *core.RunCtx, pt *rlwe.Plaintext) []uint64 {
	q := *pt
	md := *pt.MetaData
	q.MetaData = &md
	q.IsBatched = false
	q.Scale = sc.params.NewScale(1)
	have := make([]uint64, sc.params.RingT().N())
	if err := sc.enc.Decode(&q, have); err != nil {
		ctx.Harness("raw decode: %v", err)
	}
	return have
}

func (f *c16Lin) String() string {
	if f == nil {
		return "none"
	}
	return f.desc
}
