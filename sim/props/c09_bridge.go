package props

import (
	"fmt"

	"github.com/tuneinsight/lattigo/v6/core/rlwe"
	"github.com/tuneinsight/lattigo/v6/ring"
	"github.com/tuneinsight/lattigo/v6/schemes/ckks"

	"verifsim/catalog"
	"verifsim/core"
)

// C09, domain switching: ckks.DomainSwitcher moves ciphertexts between the standard ring and the conjugate-invariant
// ring of half the degree through the scratch buffers of a ckks evaluator. One long-lived evaluator (poisoned between
// steps), ring-swap keys at the maximum level or one level below, new or used receivers; every step is mirrored by a
// new evaluator on copies with a new receiver.

type c09BridgeCtx struct {
	std, ci     ckks.Parameters
	full, low   [2]*rlwe.EvaluationKey // stdToci, ciToStd
	ctStd, ctCI *rlwe.Ciphertext
}

func c09BridgeRun(ctx *core.RunCtx) {
	ch := ctx.Ch
	variant := ch.Draw("bridge-variant", 2)
	c := ctx.Cached(fmt.Sprintf("c09/bridge/%d", variant), func(*core.Xoshiro) any {
		lit := ckks.ParametersLiteral{LogN: 7, LogQ: []int{50, 40, 40}, LogP: []int{50, 50}[:1+variant], LogDefaultScale: 30}
		std, err := ckks.NewParametersFromLiteral(lit)
		if err != nil {
			return err
		}
		ci, err := ckks.NewParametersFromLiteral(ckks.ParametersLiteral{LogN: 6, Q: std.Q(), P: std.P(), LogDefaultScale: 30, RingType: ring.ConjugateInvariant})
		if err != nil {
			return err
		}
		kStd, kCI := rlwe.NewKeyGenerator(std), rlwe.NewKeyGenerator(ci)
		skStd, skCI := kStd.GenSecretKeyNew(), kCI.GenSecretKeyNew()
		cc := &c09BridgeCtx{std: std, ci: ci}
		cc.full[0], cc.full[1] = kStd.GenEvaluationKeysForRingSwapNew(skStd, skCI)
		lq, lp := std.MaxLevel()-1, std.MaxLevelP()
		cc.low[0], cc.low[1] = kStd.GenEvaluationKeysForRingSwapNew(skStd, skCI, rlwe.EvaluationKeyParameters{LevelQ: &lq, LevelP: &lp})
		g := core.NewXoshiro(77)
		mk := func(p ckks.Parameters, sk *rlwe.SecretKey) (*rlwe.Ciphertext, error) {
			pt := ckks.NewPlaintext(p, p.MaxLevel())
			v := make([]float64, p.MaxSlots())
			for i := range v {
				v[i] = float64(int64(g.Next()>>11))/float64(1<<52) - 1
			}
			if err := ckks.NewEncoder(p).Encode(v, pt); err != nil {
				return nil, err
			}
			return ckks.NewEncryptor(p, sk).EncryptNew(pt)
		}
		if cc.ctStd, err = mk(std, skStd); err != nil {
			return err
		}
		if cc.ctCI, err = mk(ci, skCI); err != nil {
			return err
		}
		return cc
	})
	cc, ok := c.(*c09BridgeCtx)
	if !ok {
		ctx.Harness("domain-switching context: %v", c)
	}
	g := core.NewXoshiro(uint64(ch.Draw("content-seed", 1<<20)))
	sys := ckks.NewEvaluator(cc.std, nil)
	nsteps := 3 + ch.Draw("nsteps", 6)
	for s := 0; s < nsteps; s++ {
		nPoison := 0
		if ch.Chance("poison", 1, 2) {
			st := core.PoisonScratch(sys, core.NewXoshiro(g.Next()))
			nPoison = st.Bytes
			ctx.Count("fault.scratch-poisoned", 1)
			ctx.Count("poisoned-bytes", int64(st.Bytes))
		}
		toReal := ch.Bool("complex-to-real")
		keys, keyName := cc.full, "keys at the maximum level"
		if ch.Chance("keys-of-lower-level", 1, 2) {
			keys, keyName = cc.low, "keys one level below the maximum"
		}
		sw, err := ckks.NewDomainSwitcher(cc.std, keys[0], keys[1])
		if err != nil {
			ctx.Harness("NewDomainSwitcher: %v", err)
		}
		src, pIn, pOut, name := cc.ctCI, cc.ci, cc.std, "RealToComplex"
		if toReal {
			src, pIn, pOut, name = cc.ctStd, cc.std, cc.ci, "ComplexToReal"
		}
		_ = pIn
		in := src.CopyNew()
		if lv := ch.Draw("input-level", in.Level()+1); lv < in.Level() {
			in.Resize(1, lv)
		}
		// receiver: new at the level of the input, or used before (same or higher level, other content and metadata)
		out, d := ckks.NewCiphertext(pOut, 1, in.Level()), "new"
		if ch.Chance("dirty-receiver", 1, 2) {
			dl := in.Level() + ch.Draw("dirty-level-extra", pOut.MaxLevel()-in.Level()+1)
			out = ckks.NewCiphertext(pOut, 1, dl)
			for i := range out.Value {
				catalog.FillPoly(pOut.RingQ().AtLevel(dl), out.Value[i], g)
			}
			out.Scale = rlwe.NewScale(1 + g.Next()%1000)
			d = fmt.Sprintf("used(level=%d)", dl)
		}
		tin, tout := in.CopyNew(), ckks.NewCiphertext(pOut, 1, in.Level())
		twin := ckks.NewEvaluator(cc.std, nil)
		h := hashCt(in)
		call := func(e *ckks.Evaluator, a, o *rlwe.Ciphertext) error {
			if toReal {
				return sw.ComplexToReal(e, a, o)
			}
			return sw.RealToComplex(e, a, o)
		}
		st := c09Exec(func() error { return call(sys, in, out) })
		tst := c09Exec(func() error { return call(twin, tin, tout) })
		cls := "ckks|DomainSwitcher." + name
		ctx.Count("oracle.twin-step", 1)
		ctx.Count("op.ckks.DomainSwitcher."+name, 1)
		ctx.Event("bridge step %d %s level=%d %s receiver=%s poison=%d -> %d/%d", s, name, in.Level(), keyName, d, nPoison, st.kind, tst.kind)
		if hashCt(in) != h {
			ctx.Fail("inputs", cls+"|op0-modified", "%s modified the ciphertext it converts", name)
			return
		}
		if st.kind != tst.kind {
			ctx.Fail("status", cls+"|status-differs", "%s (%s, receiver %s): %s ; a new evaluator with a new receiver: %s", name, keyName, d, st, tst)
			return
		}
		if st.kind != 0 {
			continue
		}
		if ok, w := eqCt(pOut.Parameters, out, tout); !ok {
			ctx.Fail("result", cls+"|differs", "%s of a level-%d ciphertext with %s into a receiver %s (scratch poisoned: %d bytes) gives another ciphertext than a new evaluator with a new receiver: %s", name, in.Level(), keyName, d, nPoison, w)
			return
		}
		// the result owns its metadata: its next use (a change of scale, of dimensions) is not a change of the input
		out.Scale = rlwe.NewScale(3 + g.Next()%1000)
		out.LogDimensions.Cols, out.IsBatched = out.LogDimensions.Cols+1, !out.IsBatched
		if hashCt(in) != h {
			ctx.Fail("inputs", cls+"|output-shares-metadata-with-input", "%s: changing the scale and dimensions of the result changed those of the ciphertext that was converted - they share one metadata object", name)
			return
		}
	}
	ctx.Nontrivial = true
	ctx.Steps += int64(nsteps)
}
