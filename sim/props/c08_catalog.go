package props

import (
	"encoding/json"
	"fmt"
	"math/big"

	"github.com/tuneinsight/lattigo/v6/circuits/ckks/bootstrapping"

	"github.com/tuneinsight/lattigo/v6/circuits/ckks/dft"
	"github.com/tuneinsight/lattigo/v6/circuits/ckks/mod1"
	"github.com/tuneinsight/lattigo/v6/circuits/common/polynomial"
	"github.com/tuneinsight/lattigo/v6/core/rgsw"
	"github.com/tuneinsight/lattigo/v6/core/rlwe"
	"github.com/tuneinsight/lattigo/v6/multiparty"
	"github.com/tuneinsight/lattigo/v6/ring"
	"github.com/tuneinsight/lattigo/v6/ring/ringqp"
	"github.com/tuneinsight/lattigo/v6/schemes/bgv"
	"github.com/tuneinsight/lattigo/v6/schemes/ckks"
	"github.com/tuneinsight/lattigo/v6/utils/bignum"
	"github.com/tuneinsight/lattigo/v6/utils/structs"

	"verifsim/catalog"
	"verifsim/core"
)

// c08Gen is the per-run generation context.
type c08Gen struct {
	ctx    *core.RunCtx
	ch     *core.Chooser
	spec   catalog.RLWESpec
	params rlwe.Parameters
	rng    *core.Xoshiro
}

type c08Ctx struct {
	params rlwe.Parameters
}

func newC08Gen(ctx *core.RunCtx) *c08Gen {
	g := &c08Gen{ctx: ctx, ch: ctx.Ch}
	for try := 0; ; try++ {
		g.spec = catalog.DrawRLWESpec(ctx.Ch, catalog.SpecOpts{MinLogN: 4, MaxLogN: 6, MinQ: 1, MaxQ: 4, MinP: 0, MaxP: 2, MinBits: 14, MaxBits: 60})
		spec := g.spec
		c := ctx.Cached(spec.Key(), func(*core.Xoshiro) any {
			p, err := spec.Build()
			if err != nil {
				return err
			}
			return &c08Ctx{params: p}
		})
		if cc, ok := c.(*c08Ctx); ok {
			g.params = cc.params
			break
		}
		if try > 20 {
			ctx.Harness("no acceptable parameter set after 20 draws: %v", c)
		}
	}
	g.rng = core.NewXoshiro(uint64(ctx.Ch.Draw("content-seed", 1<<30)))
	ctx.Event("config %s", g.spec)
	return g
}

// halfDegree returns a generation context over the ring of half the degree with the same moduli (nil when the
// parameters do not exist).
func (g *c08Gen) halfDegree() *c08Gen {
	if g.params.LogN() <= 3 {
		return nil
	}
	base := g.params
	c := g.ctx.Cached("c08/half/"+g.spec.Key(), func(*core.Xoshiro) any {
		p, err := rlwe.NewParametersFromLiteral(rlwe.ParametersLiteral{LogN: base.LogN() - 1, Q: base.Q(), P: base.P(), RingType: base.RingType(), NTTFlag: base.NTTFlag()})
		if err != nil {
			return err
		}
		return &p
	})
	p, ok := c.(*rlwe.Parameters)
	if !ok {
		return nil
	}
	gs := *g
	gs.params = *p
	gs.spec.LogN--
	return &gs
}

func (g *c08Gen) levelQ() int { return g.ch.Draw("levelQ", g.params.MaxLevelQ()+1) }
func (g *c08Gen) levelP() int { return g.ch.Draw("levelP", g.params.MaxLevelP()+2) - 1 } // -1 .. MaxLevelP

func (g *c08Gen) poly(level int) ring.Poly {
	r := g.params.RingQ().AtLevel(level)
	p := r.NewPoly()
	catalog.FillPoly(r, p, g.rng)
	return p
}

func (g *c08Gen) fillQP(p ringqp.Poly) {
	catalog.FillPolyQP(*g.params.RingQP(), p, g.rng)
}

func (g *c08Gen) polyQP(lq, lp int) ringqp.Poly {
	p := g.params.RingQP().AtLevel(lq, lp).NewPoly()
	g.fillQP(p)
	return p
}

func (g *c08Gen) scale() rlwe.Scale {
	switch g.ch.Draw("scale-kind", 7) {
	case 6:
		// very large or very small real scales (decimal exponent of three digits): what several
		// multiplications without rescaling leave
		f := new(big.Float).SetPrec(128).SetInt64(int64(1 + g.rng.Next()%1000000))
		e := 333 + g.ch.Draw("scale-huge-exp", 700)
		if g.ch.Bool("scale-tiny") {
			e = -e
		}
		f.SetMantExp(f, e)
		return rlwe.NewScale(f)
	case 4:
		// a plaintext modulus beyond the 53 bits of a float64 mantissa (T may be as large as Q[0])
		bits := 54 + g.ch.Draw("scale-mod-bits", 11)
		mod := g.rng.Next()>>(64-uint(bits)) | 1<<(uint(bits)-1) | 1
		return rlwe.NewScaleModT(1+g.rng.Next()%(mod-1), mod)
	case 5:
		// a real scale that needs the whole 128-bit mantissa
		f := new(big.Float).SetPrec(128).SetInt(new(big.Int).SetUint64(g.rng.Next() | 1<<63))
		f.Mul(f, new(big.Float).SetPrec(128).SetInt(new(big.Int).SetUint64(g.rng.Next()|1)))
		f.SetMantExp(f, -g.ch.Draw("scale-exp", 100))
		return rlwe.NewScale(f)
	case 0:
		return rlwe.NewScale(1)
	case 1:
		return rlwe.NewScale(float64(uint64(1) << uint(g.ch.Draw("scale-log", 60))))
	case 2:
		f := new(big.Float).SetPrec(128).SetInt64(int64(1 + g.rng.Next()%1000000))
		f.Quo(f, new(big.Float).SetInt64(7))
		return rlwe.NewScale(f)
	default:
		return rlwe.NewScaleModT(1+g.rng.Next()%65536, 65537)
	}
}

func (g *c08Gen) metadata() *rlwe.MetaData {
	return &rlwe.MetaData{
		PlaintextMetaData: rlwe.PlaintextMetaData{
			Scale:         g.scale(),
			LogDimensions: ring.Dimensions{Rows: g.ch.Draw("md-rows", 5) - 2, Cols: g.ch.Draw("md-cols", 15) - 3}, // negative values are legal (a split of a single-slot ciphertext leaves -1)
			IsBatched:     g.ch.Bool("md-batched"),
			IsBitReversed: g.ch.Bool("md-bitrev"),
		},
		CiphertextMetaData: rlwe.CiphertextMetaData{IsNTT: g.ch.Bool("md-ntt"), IsMontgomery: g.ch.Bool("md-mont")},
	}
}

func (g *c08Gen) fillElement(el *rlwe.Element[ring.Poly]) {
	r := g.params.RingQ()
	for i := range el.Value {
		catalog.FillPoly(r, el.Value[i], g.rng)
	}
	if g.ch.Chance("nil-metadata", 1, 5) {
		el.MetaData = nil
		g.ctx.Count("probe.nil-metadata-element", 1)
	} else {
		el.MetaData = g.metadata()
	}
}

func (g *c08Gen) ciphertext() *rlwe.Ciphertext {
	ct := rlwe.NewCiphertext(g.params, g.ch.Draw("ct-degree", 3), g.levelQ())
	g.fillElement(&ct.Element)
	return ct
}

func (g *c08Gen) evkParams() rlwe.EvaluationKeyParameters {
	lq := g.levelQ()
	lp := g.params.MaxLevelP()
	if lp >= 0 {
		lp = g.ch.Draw("evk-levelP", lp+1)
	}
	b2 := 0
	if g.ch.Bool("evk-base2") {
		b2 = 1 + g.ch.Draw("evk-base2-val", 30)
	}
	return rlwe.EvaluationKeyParameters{LevelQ: &lq, LevelP: &lp, BaseTwoDecomposition: &b2, Compressed: g.ch.Chance("evk-compressed", 1, 3)}
}

func (g *c08Gen) fillGadget(gc *rlwe.GadgetCiphertext) {
	for i := range gc.Value {
		for j := range gc.Value[i] {
			for k := range gc.Value[i][j] {
				g.fillQP(gc.Value[i][j][k])
			}
		}
	}
}

func (g *c08Gen) gadget(degree int) *rlwe.GadgetCiphertext {
	ep := g.evkParams()
	gc := rlwe.NewGadgetCiphertext(g.params, degree, *ep.LevelQ, *ep.LevelP, *ep.BaseTwoDecomposition)
	g.fillGadget(gc)
	return gc
}

func (g *c08Gen) evk() *rlwe.EvaluationKey {
	ep := g.evkParams()
	k := rlwe.NewEvaluationKey(g.params, ep)
	g.fillGadget(&k.GadgetCiphertext)
	if ep.Compressed {
		var seed [32]byte
		g.rng.Fill(seed[:])
		k.Seed = &seed
		g.ctx.Count("probe.compressed-key-with-seed", 1)
		if g.ch.Chance("evk-expanded", 1, 3) {
			// a compressed key after Expand: both components present (the seed stays in the object)
			if err := k.Expand(g.params, nil); err != nil {
				g.ctx.Harness("Expand: %v", err)
			}
			g.ctx.Count("probe.expanded-compressed-key", 1)
		}
	}
	return k
}

func (g *c08Gen) galoisKey() *rlwe.GaloisKey {
	e := g.evk()
	return &rlwe.GaloisKey{EvaluationKey: *e, GaloisElement: g.params.GaloisElement(1 + g.ch.Draw("galel", 7)), NthRoot: g.params.RingQ().NthRoot()}
}

func (g *c08Gen) keySet() *rlwe.MemEvaluationKeySet {
	ks := &rlwe.MemEvaluationKeySet{}
	if g.ch.Bool("ks-has-rlk") {
		ks.RelinearizationKey = &rlwe.RelinearizationKey{EvaluationKey: *g.evk()}
	}
	switch g.ch.Draw("ks-galois", 3) {
	case 0: // nil map
		g.ctx.Count("probe.keyset-nil-galois-map", 1)
	case 1:
		ks.GaloisKeys = structs.Map[uint64, rlwe.GaloisKey]{}
		g.ctx.Count("probe.keyset-empty-galois-map", 1)
	default:
		ks.GaloisKeys = structs.Map[uint64, rlwe.GaloisKey]{}
		n := 1 + g.ch.Draw("ks-ngal", 3)
		for i := 0; i < n; i++ {
			gk := g.galoisKey()
			ks.GaloisKeys[gk.GaloisElement] = gk
		}
	}
	return ks
}

// binOnly adapts a type that offers only MarshalBinary/UnmarshalBinary.
type binOnly[T any, PT interface {
	*T
	MarshalBinary() ([]byte, error)
	UnmarshalBinary([]byte) error
}] struct{ V PT }

func (b binOnly[T, PT]) BinarySize() int {
	d, _ := b.V.MarshalBinary()
	return len(d)
}
func (b binOnly[T, PT]) MarshalBinary() ([]byte, error) { return b.V.MarshalBinary() }
func (b binOnly[T, PT]) unwrap() any                    { return b.V }
func (b binOnly[T, PT]) UnmarshalBinary(p []byte) error { return b.V.UnmarshalBinary(p) }

func entryOf[T any, PT interface {
	*T
	streamSer
}](name string, gen func(g *c08Gen) *T) c08Entry {
	return c08Entry{
		Name: name,
		Gen:  func(g *c08Gen) ser { return PT(gen(g)) },
		New:  func() ser { return PT(new(T)) },
		Equal: func(a, b ser) (bool, bool) {
			if e, ok := any(a).(interface{ Equal(*T) bool }); ok {
				return e.Equal((*T)(b.(PT))), true
			}
			if e, ok := any(a).(interface{ Equal(T) bool }); ok {
				return e.Equal(*(*T)(b.(PT))), true
			}
			return false, false
		},
	}
}

func binEntryOf[T any, PT interface {
	*T
	MarshalBinary() ([]byte, error)
	UnmarshalBinary([]byte) error
}](name string, gen func(g *c08Gen) *T) c08Entry {
	return c08Entry{
		Name: name,
		Gen:  func(g *c08Gen) ser { return binOnly[T, PT]{PT(gen(g))} },
		New:  func() ser { return binOnly[T, PT]{PT(new(T))} },
		Equal: func(a, b ser) (bool, bool) {
			av, bv := a.(binOnly[T, PT]).V, b.(binOnly[T, PT]).V
			if e, ok := any(av).(interface{ Equal(*T) bool }); ok {
				return e.Equal((*T)(bv)), true
			}
			if e, ok := any(av).(interface{ Equal(T) bool }); ok {
				return e.Equal(*(*T)(bv)), true
			}
			return false, false
		},
	}
}

// jsonOnly adapts a type that is serialized through encoding/json only (parameter literals).
type jsonOnly[T any] struct{ V *T }

func (j jsonOnly[T]) BinarySize() int {
	d, _ := json.Marshal(j.V)
	return len(d)
}
func (j jsonOnly[T]) MarshalBinary() ([]byte, error) { return json.Marshal(j.V) }
func (j jsonOnly[T]) UnmarshalBinary(p []byte) error { return json.Unmarshal(p, j.V) }
func (j jsonOnly[T]) unwrap() any                    { return j.V }

func jsonEntryOf[T any](name string, gen func(g *c08Gen) *T) c08Entry {
	return c08Entry{
		Name:  name,
		Gen:   func(g *c08Gen) ser { return jsonOnly[T]{gen(g)} },
		New:   func() ser { return jsonOnly[T]{new(T)} },
		Equal: func(a, b ser) (bool, bool) { return false, false },
	}
}

func randVec[T any](g *c08Gen, conv func(uint64) T) *structs.Vector[T] {
	n := g.ch.Draw("vec-len", 40)
	if g.ch.Chance("vec-long", 1, 6) {
		n = 500 + g.ch.Draw("vec-len-long", 1200) // longer than one 4096-byte window for 8-byte words
	}
	v := make(structs.Vector[T], n)
	for i := range v {
		v[i] = conv(g.rng.Next())
	}
	return &v
}

var c08Entries []c08Entry

func c08Catalog() []c08Entry {
	if c08Entries != nil {
		return c08Entries
	}
	es := []c08Entry{
		entryOf("ring.Poly", func(g *c08Gen) *ring.Poly {
			if g.ch.Chance("empty-poly", 1, 10) {
				g.ctx.Count("probe.empty-poly", 1)
				return &ring.Poly{}
			}
			p := g.poly(g.levelQ())
			return &p
		}),
		entryOf("ringqp.Poly", func(g *c08Gen) *ringqp.Poly {
			p := g.polyQP(g.levelQ(), g.levelP())
			return &p
		}),
		entryOf("structs.Vector[uint64]", func(g *c08Gen) *structs.Vector[uint64] { return randVec(g, func(x uint64) uint64 { return x }) }),
		entryOf("structs.Vector[uint64](long)", func(g *c08Gen) *structs.Vector[uint64] {
			// lengths around multiples of the 8192-element growth step of the decoder (ring degrees 2^13 and above)
			n := []int{8191, 8192, 8193, 16384, 16385, 20000, 24577}[g.ch.Draw("long-vec-len", 7)]
			v := make(structs.Vector[uint64], n)
			for i := range v {
				v[i] = g.rng.Next()
			}
			return &v
		}),
		entryOf("structs.Vector[uint16](long)", func(g *c08Gen) *structs.Vector[uint16] {
			n := []int{8193, 16384, 30000}[g.ch.Draw("long-vec-len", 3)]
			v := make(structs.Vector[uint16], n)
			for i := range v {
				v[i] = uint16(g.rng.Next())
			}
			return &v
		}),
		entryOf("structs.Vector[uint32]", func(g *c08Gen) *structs.Vector[uint32] { return randVec(g, func(x uint64) uint32 { return uint32(x) }) }),
		entryOf("structs.Vector[uint16]", func(g *c08Gen) *structs.Vector[uint16] { return randVec(g, func(x uint64) uint16 { return uint16(x) }) }),
		entryOf("structs.Vector[uint8]", func(g *c08Gen) *structs.Vector[uint8] { return randVec(g, func(x uint64) uint8 { return uint8(x) }) }),
		entryOf("structs.Vector[int]", func(g *c08Gen) *structs.Vector[int] { return randVec(g, func(x uint64) int { return int(x) }) }),
		entryOf("structs.Vector[float64]", func(g *c08Gen) *structs.Vector[float64] {
			return randVec(g, func(x uint64) float64 { return float64(int64(x>>12)) / 1024 })
		}),
		entryOf("structs.Matrix[uint64]", func(g *c08Gen) *structs.Matrix[uint64] {
			rows := g.ch.Draw("mat-rows", 5)
			m := make(structs.Matrix[uint64], rows)
			for i := range m {
				m[i] = *randVec(g, func(x uint64) uint64 { return x })
			}
			return &m
		}),
		entryOf("structs.Vector[ring.Poly]", func(g *c08Gen) *structs.Vector[ring.Poly] {
			n := g.ch.Draw("polyvec-len", 4)
			v := make(structs.Vector[ring.Poly], n)
			for i := range v {
				v[i] = g.poly(g.levelQ())
			}
			return &v
		}),
		entryOf("structs.Matrix[ringqp.Poly]", func(g *c08Gen) *structs.Matrix[ringqp.Poly] {
			rows := g.ch.Draw("qpmat-rows", 3)
			m := make(structs.Matrix[ringqp.Poly], rows)
			for i := range m {
				m[i] = make([]ringqp.Poly, g.ch.Draw("qpmat-cols", 3))
				for j := range m[i] {
					m[i][j] = g.polyQP(g.levelQ(), g.levelP())
				}
			}
			return &m
		}),
		entryOf("structs.Map[uint64,rlwe.GaloisKey]", func(g *c08Gen) *structs.Map[uint64, rlwe.GaloisKey] {
			m := structs.Map[uint64, rlwe.GaloisKey]{}
			n := g.ch.Draw("map-n", 4)
			if n == 0 {
				g.ctx.Count("probe.empty-map", 1)
			}
			for i := 0; i < n; i++ {
				gk := g.galoisKey()
				m[gk.GaloisElement] = gk
			}
			return &m
		}),
		entryOf("rlwe.MetaData", func(g *c08Gen) *rlwe.MetaData { return g.metadata() }),
		entryOf("rlwe.PlaintextMetaData", func(g *c08Gen) *rlwe.PlaintextMetaData { m := g.metadata(); return &m.PlaintextMetaData }),
		entryOf("rlwe.CiphertextMetaData", func(g *c08Gen) *rlwe.CiphertextMetaData { m := g.metadata(); return &m.CiphertextMetaData }),
		binEntryOf("rlwe.Scale", func(g *c08Gen) *rlwe.Scale { s := g.scale(); return &s }),
		entryOf("rlwe.Plaintext", func(g *c08Gen) *rlwe.Plaintext {
			pt := rlwe.NewPlaintext(g.params, g.levelQ())
			g.fillElement(&pt.Element)
			if len(pt.Element.Value) > 0 {
				pt.Value = pt.Element.Value[0]
			}
			return pt
		}),
		entryOf("rlwe.Ciphertext", func(g *c08Gen) *rlwe.Ciphertext { return g.ciphertext() }),
		entryOf("rlwe.SecretKey", func(g *c08Gen) *rlwe.SecretKey {
			sk := rlwe.NewSecretKey(g.params)
			g.fillQP(sk.Value)
			return sk
		}),
		entryOf("rlwe.PublicKey", func(g *c08Gen) *rlwe.PublicKey {
			pk := rlwe.NewPublicKey(g.params)
			g.fillQP(pk.Value[0])
			g.fillQP(pk.Value[1])
			return pk
		}),
		entryOf("rlwe.GadgetCiphertext", func(g *c08Gen) *rlwe.GadgetCiphertext { return g.gadget(g.ch.Draw("gadget-degree", 2)) }),
		entryOf("rlwe.EvaluationKey", func(g *c08Gen) *rlwe.EvaluationKey { return g.evk() }),
		entryOf("rlwe.RelinearizationKey", func(g *c08Gen) *rlwe.RelinearizationKey {
			return &rlwe.RelinearizationKey{EvaluationKey: *g.evk()}
		}),
		entryOf("rlwe.GaloisKey", func(g *c08Gen) *rlwe.GaloisKey { return g.galoisKey() }),
		entryOf("rlwe.MemEvaluationKeySet", func(g *c08Gen) *rlwe.MemEvaluationKeySet { return g.keySet() }),
		entryOf("rgsw.Ciphertext", func(g *c08Gen) *rgsw.Ciphertext {
			ep := g.evkParams()
			ct := rgsw.NewCiphertext(g.params, *ep.LevelQ, *ep.LevelP, *ep.BaseTwoDecomposition)
			g.fillGadget(&ct.Value[0])
			g.fillGadget(&ct.Value[1])
			return ct
		}),
		entryOf("rlwe.Parameters", func(g *c08Gen) *rlwe.Parameters {
			if g.ch.Chance("noiseless-parameters", 1, 4) {
				// the explicitly constructed noiseless instance (error distribution of standard deviation zero)
				p, err := rlwe.NewParameters(g.spec.LogN, g.params.Q(), g.params.P(), ring.Ternary{H: 1 + g.ch.Draw("np-H", 8)}, ring.DiscreteGaussian{Sigma: 0, Bound: 0}, ring.Standard, rlwe.NewScale(1), true)
				// (the constructor returns the parameters together with a warning about the zero deviation)
				if err == nil || p.RingQ() != nil {
					g.ctx.Count("probe.noiseless-parameters", 1)
					return &p
				}
			}
			p := g.params
			return &p
		}),
		entryOf("bgv.Parameters", func(g *c08Gen) *bgv.Parameters {
			p, err := bgv.NewParametersFromLiteral(bgv.ParametersLiteral{LogN: g.spec.LogN, Q: g.params.Q(), P: g.params.P(), PlaintextModulus: 0x101})
			if err != nil {
				g.ctx.Harness("bgv params: %v", err)
			}
			return &p
		}),
		entryOf("ckks.Parameters", func(g *c08Gen) *ckks.Parameters {
			lit := ckks.ParametersLiteral{LogN: g.spec.LogN, Q: g.params.Q(), P: g.params.P(), LogDefaultScale: 10 + g.ch.Draw("ckks-logscale", 40),
				RingType: []ring.Type{ring.Standard, ring.ConjugateInvariant}[g.ch.Draw("ckks-ringtype", 2)]}
			p, err := ckks.NewParametersFromLiteral(lit)
			if err != nil && lit.RingType == ring.ConjugateInvariant {
				// the drawn primes need not be 1 mod 4N
				lit.RingType = ring.Standard
				p, err = ckks.NewParametersFromLiteral(lit)
			}
			if err != nil {
				g.ctx.Harness("ckks params: %v", err)
			}
			return &p
		}),
		binEntryOf("ring.Ring", func(g *c08Gen) *ring.Ring {
			r, err := ring.NewRing(1<<g.spec.LogN, g.params.Q()[:1+g.levelQ()])
			if err != nil {
				g.ctx.Harness("ring: %v", err)
			}
			if g.ch.Chance("ring-custom-root", 1, 4) {
				// a ring over a root of unity of higher order than 2N (as parameter sets with LogNthRoot request),
				// up to 2^12 * N
				// (the primes support the highest order, so that rings over the same moduli and degree differ in
				// their root or in their type only - what a receiver that is reused must not keep)
				N := 16
				nth := N << uint(1+g.ch.Draw("ring-root-extra", 12))
				gen := ring.NewNTTFriendlyPrimesGenerator(40, uint64(N<<12))
				ps, err := gen.NextAlternatingPrimes(1 + g.ch.Draw("ring-root-moduli", 2))
				if err != nil {
					g.ctx.Harness("primes: %v", err)
				}
				if g.ch.Chance("ring-conjugate-invariant", 1, 4) {
					if r, err = ring.NewRingFromType(N, ps, ring.ConjugateInvariant); err != nil {
						g.ctx.Harness("conjugate-invariant ring: %v", err)
					}
				} else if r, err = ring.NewRingWithCustomNTT(N, ps, ring.NewNumberTheoreticTransformerStandard, nth); err != nil {
					g.ctx.Harness("ring with custom root: %v", err)
				}
				g.ctx.Count("probe.ring-with-root-of-higher-order", 1)
				return r
			}
			if r.Level() > 0 && g.ch.Chance("ring-level-view", 1, 3) {
				// a view of the ring at a lower level
				r = r.AtLevel(g.ch.Draw("ring-view-level", r.Level()))
				g.ctx.Count("probe.ring-level-view", 1)
			}
			return r
		}),
		entryOf("polynomial.PowerBasis", func(g *c08Gen) *polynomial.PowerBasis {
			pb := &polynomial.PowerBasis{Basis: []bignum.Basis{bignum.Monomial, bignum.Chebyshev}[g.ch.Draw("pb-basis", 2)]}
			pb.Value = structs.Map[int, rlwe.Ciphertext]{}
			n := g.ch.Draw("pb-n", 4)
			if n == 0 {
				g.ctx.Count("probe.empty-power-basis", 1)
			}
			for i := 0; i < n; i++ {
				pb.Value[1<<i] = g.ciphertext()
			}
			return pb
		}),
		binEntryOf("dft.MatrixLiteral", func(g *c08Gen) *dft.MatrixLiteral {
			return &dft.MatrixLiteral{Type: dft.Type(g.ch.Draw("dft-type", 2)), LogSlots: 1 + g.ch.Draw("dft-logslots", 12), LevelQ: g.ch.Draw("dft-level", 20),
				LogBSGSRatio: g.ch.Draw("dft-bsgs", 3), Levels: []int{1 + g.ch.Draw("dft-l0", 3), 1 + g.ch.Draw("dft-l1", 3)}, BitReversed: g.ch.Bool("dft-bitrev"),
				Format: dft.Format(g.ch.Draw("dft-format", 3)), Scaling: new(big.Float).SetFloat64(float64(1+g.ch.Draw("dft-scaling", 1000)) / 8)}
		}),
		binEntryOf("mod1.ParametersLiteral", func(g *c08Gen) *mod1.ParametersLiteral {
			return &mod1.ParametersLiteral{LevelQ: g.ch.Draw("m1-level", 20), LogScale: 30 + g.ch.Draw("m1-logscale", 30), Mod1Type: mod1.Type(g.ch.Draw("m1-type", 3)),
				Scaling: float64(g.ch.Draw("m1-scaling", 100)) / 4, LogMessageRatio: g.ch.Draw("m1-ratio", 10), K: 1 + g.ch.Draw("m1-K", 30), Mod1Degree: 1 + g.ch.Draw("m1-deg", 60),
				DoubleAngle: g.ch.Draw("m1-da", 4), Mod1InvDegree: g.ch.Draw("m1-inv", 8)}
		}),
		jsonEntryOf("rlwe.ParametersLiteral", func(g *c08Gen) *rlwe.ParametersLiteral {
			if g.ch.Bool("lit-by-sizes") {
				// the other way of writing a literal: sizes instead of primes, a chosen root of unity, and the
				// distributions left to their defaults (or set)
				l := &rlwe.ParametersLiteral{LogN: g.spec.LogN, LogQ: g.spec.LogQ, LogP: g.spec.LogP, LogNthRoot: g.spec.LogN + 1 + g.ch.Draw("lit-nthroot-extra", 3),
					NTTFlag: g.ch.Bool("lit-ntt")}
				if g.ch.Bool("lit-with-xs") {
					l.Xs = ring.Ternary{H: 1 + g.ch.Draw("lit-H", 16)}
				}
				if g.ch.Bool("lit-with-xe") {
					l.Xe = ring.DiscreteGaussian{Sigma: 3.2, Bound: 19.2}
				}
				return l
			}
			l := g.params.ParametersLiteral()
			return &l
		}),
		jsonEntryOf("bgv.ParametersLiteral", func(g *c08Gen) *bgv.ParametersLiteral {
			l := &bgv.ParametersLiteral{LogN: g.spec.LogN, Q: g.params.Q(), P: g.params.P(), PlaintextModulus: 0x101,
				Xe: ring.DiscreteGaussian{Sigma: 3.2, Bound: 19.2}, Xs: []ring.DistributionParameters{ring.Ternary{P: 0.5}, ring.Ternary{H: 1 + g.ch.Draw("lit-H", 16)}}[g.ch.Draw("lit-xs", 2)]}
			if g.ch.Bool("lit-defaults") {
				l.Xe, l.Xs = nil, nil
				l.LogNthRoot = g.spec.LogN + 2
			}
			return l
		}),
		jsonEntryOf("ckks.ParametersLiteral", func(g *c08Gen) *ckks.ParametersLiteral {
			if g.ch.Bool("lit-defaults") {
				return &ckks.ParametersLiteral{LogN: g.spec.LogN, LogQ: g.spec.LogQ, LogP: g.spec.LogP, LogDefaultScale: 10 + g.ch.Draw("lit-logscale", 40), LogNthRoot: g.spec.LogN + 2}
			}
			return &ckks.ParametersLiteral{LogN: g.spec.LogN, LogQ: g.spec.LogQ, LogP: g.spec.LogP, LogDefaultScale: 10 + g.ch.Draw("lit-logscale", 40),
				RingType: []ring.Type{ring.Standard, ring.ConjugateInvariant}[g.ch.Draw("lit-ringtype", 2)], Xs: ring.Ternary{H: 1 + g.ch.Draw("lit-H", 16)}}
		}),
		binEntryOf("bootstrapping.ParametersLiteral", func(g *c08Gen) *bootstrapping.ParametersLiteral {
			ip := func(name string, lo, n int) *int {
				if g.ch.Bool(name + "-set") {
					v := lo + g.ch.Draw(name, n)
					return &v
				}
				return nil
			}
			l := &bootstrapping.ParametersLiteral{LogN: ip("btp-logn", 10, 7), LogSlots: ip("btp-logslots", 1, 12), EvalModLogScale: ip("btp-evalmod", 40, 21),
				EphemeralSecretWeight: ip("btp-h", 0, 64), LogMessageRatio: ip("btp-ratio", 2, 10), K: ip("btp-K", 8, 32), Mod1Degree: ip("btp-deg", 10, 60),
				DoubleAngle: ip("btp-da", 0, 4), Mod1InvDegree: ip("btp-inv", 0, 8), Mod1Type: mod1.Type(g.ch.Draw("btp-mod1", 3))}
			if g.ch.Bool("btp-logp") {
				l.LogP = []int{61, 55 + g.ch.Draw("btp-logp-v", 6)}
			}
			if g.ch.Bool("btp-c2s") {
				l.CoeffsToSlotsFactorizationDepthAndLogScales = [][]int{{56}, {56, 40 + g.ch.Draw("btp-c2s-v", 16)}}
				l.SlotsToCoeffsFactorizationDepthAndLogScales = [][]int{{39}, {39}, {39}}
			}
			if g.ch.Bool("btp-xs") {
				l.Xs = ring.Ternary{H: 32 + g.ch.Draw("btp-xs-h", 200)}
				l.Xe = ring.DiscreteGaussian{Sigma: 3.2, Bound: 19.2}
			}
			if g.ch.Bool("btp-iter") {
				l.IterationsParameters = &bootstrapping.IterationsParameters{BootstrappingPrecision: []float64{25, 25.5}, ReservedPrimeBitSize: 20 + g.ch.Draw("btp-iter-v", 20)}
			}
			return l
		}),
		entryOf("bootstrapping.EvaluationKeys", func(g *c08Gen) *bootstrapping.EvaluationKeys {
			opt := func(name string) *rlwe.EvaluationKey {
				if g.ch.Bool(name) {
					return g.evk()
				}
				return nil
			}
			k := &bootstrapping.EvaluationKeys{EvkN1ToN2: opt("btk-n1n2"), EvkN2ToN1: opt("btk-n2n1"), EvkRealToCmplx: opt("btk-r2c"), EvkCmplxToReal: opt("btk-c2r"),
				EvkDenseToSparse: opt("btk-d2s"), EvkSparseToDense: opt("btk-s2d")}
			if g.ch.Bool("btk-keyset") {
				k.MemEvaluationKeySet = g.keySet()
			}
			return k
		}),
		binEntryOf("bootstrapping.Parameters", func(g *c08Gen) *bootstrapping.Parameters {
			// the built parameters of a bootstrapping circuit (two parameter sets, two matrix literals, the literal of
			// the modular reduction): built once per worker and variant, the plain fields redrawn per run
			variant := g.ch.Draw("btpp-variant", 6)
			c := g.ctx.Cached(fmt.Sprintf("c08/btp-params/%d", variant), func(*core.Xoshiro) any {
				lit := ckks.ParametersLiteral{LogN: 10, LogQ: []int{60, 40}, LogP: []int{61}, LogDefaultScale: 40}
				btpLit := bootstrapping.ParametersLiteral{}
				n2 := 10
				switch variant {
				case 1: // residual ring of half the degree
					lit.LogNthRoot = lit.LogN + 1
					lit.LogN--
				case 2: // conjugate-invariant residual ring
					lit.RingType = ring.ConjugateInvariant
					lit.LogN--
				case 3: // iterations
					btpLit.IterationsParameters = &bootstrapping.IterationsParameters{BootstrappingPrecision: []float64{25}, ReservedPrimeBitSize: 28}
					lit.LogQ = []int{60, 40, 28}
				case 4: // sparse slots, another sine approximation
					ls := 5
					btpLit.LogSlots = &ls
					btpLit.Mod1Type = mod1.SinContinuous
				case 5:
					h := 0
					btpLit.EphemeralSecretWeight = &h
					lit.LogQ = []int{55, 45, 45}
				}
				btpLit.LogN = &n2
				params, err := ckks.NewParametersFromLiteral(lit)
				if err != nil {
					return err
				}
				btp, err := bootstrapping.NewParametersFromLiteral(params, btpLit)
				if err != nil {
					return err
				}
				return &btp
			})
			base, ok := c.(*bootstrapping.Parameters)
			if !ok {
				g.ctx.Harness("bootstrapping parameters, variant %d: %v", variant, c)
			}
			p := *base
			if g.ch.Bool("btpp-fields") {
				p.EphemeralSecretWeight = g.ch.Draw("btpp-h", 300)
				p.CircuitOrder = bootstrapping.CircuitOrder(g.ch.Draw("btpp-order", 3))
				p.Mod1ParametersLiteral.LogMessageRatio = 2 + g.ch.Draw("btpp-ratio", 10)
				p.SlotsToCoeffsParameters.LogSlots = 1 + g.ch.Draw("btpp-logslots", 9)
			}
			return &p
		}),
		// multiparty shares
		entryOf("multiparty.PublicKeyGenShare", func(g *c08Gen) *multiparty.PublicKeyGenShare {
			s := multiparty.NewPublicKeyGenProtocol(g.params).AllocateShare()
			g.fillQP(s.Value)
			return &s
		}),
		entryOf("multiparty.EvaluationKeyGenShare", func(g *c08Gen) *multiparty.EvaluationKeyGenShare {
			ep := g.evkParams()
			ep.Compressed = false
			s := multiparty.NewEvaluationKeyGenProtocol(g.params).AllocateShare(ep)
			g.fillGadget(&s.GadgetCiphertext)
			return &s
		}),
		entryOf("multiparty.GaloisKeyGenShare", func(g *c08Gen) *multiparty.GaloisKeyGenShare {
			ep := g.evkParams()
			ep.Compressed = false
			s := multiparty.NewGaloisKeyGenProtocol(g.params).AllocateShare(ep)
			g.fillGadget(&s.GadgetCiphertext)
			s.GaloisElement = g.params.GaloisElement(1 + g.ch.Draw("galel", 7))
			return &s
		}),
		entryOf("multiparty.RelinearizationKeyGenShare", func(g *c08Gen) *multiparty.RelinearizationKeyGenShare {
			ep := g.evkParams()
			ep.Compressed = false
			_, r1, r2 := multiparty.NewRelinearizationKeyGenProtocol(g.params).AllocateShare(ep)
			s := &r1
			if g.ch.Bool("rkg-round2") {
				s = &r2
			}
			g.fillGadget(&s.GadgetCiphertext)
			return s
		}),
		entryOf("multiparty.KeySwitchShare", func(g *c08Gen) *multiparty.KeySwitchShare {
			return &multiparty.KeySwitchShare{Value: g.poly(g.levelQ())}
		}),
		entryOf("multiparty.PublicKeySwitchShare", func(g *c08Gen) *multiparty.PublicKeySwitchShare {
			s := &multiparty.PublicKeySwitchShare{Element: *rlwe.NewElement(g.params, 1, g.levelQ())}
			g.fillElement(&s.Element)
			return s
		}),
		entryOf("multiparty.RefreshShare", func(g *c08Gen) *multiparty.RefreshShare {
			return &multiparty.RefreshShare{EncToShareShare: multiparty.KeySwitchShare{Value: g.poly(g.levelQ())},
				ShareToEncShare: multiparty.KeySwitchShare{Value: g.poly(g.levelQ())}, MetaData: *g.metadata()}
		}),
		entryOf("multiparty.ShamirSecretShare", func(g *c08Gen) *multiparty.ShamirSecretShare {
			return &multiparty.ShamirSecretShare{Poly: g.polyQP(g.params.MaxLevelQ(), g.params.MaxLevelP())}
		}),
	}
	for i := range es {
		switch es[i].Name {
		case "structs.Map[uint64,rlwe.GaloisKey]", "rlwe.MemEvaluationKeySet", "polynomial.PowerBasis", "bootstrapping.EvaluationKeys":
			es[i].Keyed = true
		case "rlwe.MetaData", "rlwe.PlaintextMetaData", "rlwe.CiphertextMetaData", "rlwe.Scale", "rlwe.Parameters", "bgv.Parameters", "ckks.Parameters", "ring.Ring":
			es[i].JSON = true
		}
	}
	seen := map[string]bool{}
	for _, e := range es {
		if seen[e.Name] {
			panic(fmt.Sprintf("duplicate catalog entry %s", e.Name))
		}
		seen[e.Name] = true
	}
	c08Entries = es
	return es
}
