package props

import (
	"bufio"
	"bytes"
	"encoding/json"
	"errors"
	"fmt"
	"io"
	"reflect"
	"runtime"
	"unsafe"

	"github.com/tuneinsight/lattigo/v6/core/rlwe"
	"github.com/tuneinsight/lattigo/v6/utils/buffer"

	"verifsim/core"
	"verifsim/simio"
)

// C08: serialization under a simulated byte stream.

// ser is what every catalog object offers (pointer receivers included).
type ser interface {
	BinarySize() int
	MarshalBinary() ([]byte, error)
	UnmarshalBinary([]byte) error
}

type streamSer interface {
	ser
	io.WriterTo
	io.ReaderFrom
}

// c08Entry is one serializable type of the catalog.
type c08Entry struct {
	Name string
	// Gen draws a value; every call returns memory not shared with anything else.
	Gen func(g *c08Gen) ser
	// New returns a fresh (zero) receiver.
	New func() ser
	// Equal is the type's own equality if it offers one (ok=false otherwise).
	Equal func(a, b ser) (eq bool, ok bool)
	// Heavy entries are only drawn in the thorough tier.
	Heavy bool
	// NoDirty: the type documents that the receiver must be fresh/zero.
	NoDirty bool
	// JSON: the type itself (not an embedded field) offers MarshalJSON/UnmarshalJSON.
	JSON bool
	// Keyed: the encoding contains map keys. A corrupted key (neither a length
	// nor a flag) may collide with another one, and the decoded map is then
	// legitimately smaller than the bytes consumed; the "accepted but
	// truncated" sub-check is not applied to these types.
	Keyed bool
}

type c08 struct{}

func (c08) ID() string { return "C08" }
func (c08) Runs(tier string) int {
	if tier == "thorough" {
		return 400000
	}
	return 2400
}
func (c08) Describe() core.Description {
	return core.Description{
		Level:  "fault_enumeration",
		Rule:   "per run: drawn parameter set (LogN 4-6, 1-4 Q primes, 0-2 P primes of unequal size), 1-4 drawn objects of the serializable-type catalog; each is written through every entry point, read back through a drawn reader flavour under a drawn chunk schedule into fresh and dirty receivers, then subjected to drawn faults (truncation, sink failure, header corruption); ~1 in 12 runs enumerates every truncation offset and every sink-failure offset of one encoding. Non-trivial = at least one fault fired and at least one oracle evaluated; distinct = distinct choice traces",
		Real:   []string{"every BinarySize/WriteTo/ReadFrom/MarshalBinary/UnmarshalBinary/MarshalJSON/UnmarshalJSON of the catalogued lattigo types", "utils/buffer readers/writers", "utils/structs Vector/Matrix/Map", "bufio"},
		Stub:   []string{"byte stream (simio.Reader: chunking, early end, broken transport)", "sink (simio.Sink: failure after k bytes)", "entropy source (deterministic crypto/rand.Reader)"},
		Assume: []string{"a plain io.Reader handed to ReadFrom is re-wrapped by the library in a read-ahead bufio.Reader, so back-to-back decoding is demanded only through one caller-owned buffer.Reader", "allocation bound under corruption: 1 GiB for encodings below 10 MB (format independent)"},
	}
}

func init() { core.Register(c08{}) }

// callResult is the outcome of one guarded library call.
type callResult struct {
	n        int64
	err      error
	panicked bool
	site     string
	msg      string
	hang     bool
	alloc    uint64
}

// guarded runs f, converting library panics and reader no-progress into data.
func guarded(measureAlloc bool, f func() (int64, error)) (r callResult) {
	var m0 runtime.MemStats
	if measureAlloc {
		runtime.ReadMemStats(&m0)
	}
	func() {
		defer func() {
			if x := recover(); x != nil {
				if _, ok := x.(simio.NoProgress); ok {
					r.hang = true
					return
				}
				panic(x)
			}
		}()
		r.panicked, r.site, r.msg = core.Protect(func() { r.n, r.err = f() })
	}()
	if measureAlloc {
		var m1 runtime.MemStats
		runtime.ReadMemStats(&m1)
		r.alloc = m1.TotalAlloc - m0.TotalAlloc
	}
	return
}

const (
	rdPlain = iota
	rdBufio
	rdBuffer
	rdUnmarshal
	rdKinds
)

var rdNames = []string{"ReadFrom(io.Reader)", "ReadFrom(bufio.Reader)", "ReadFrom(buffer.Buffer)", "UnmarshalBinary"}

const (
	wrMarshal = iota
	wrPlain
	wrBufio
	wrBuffer
	wrKinds
)

var wrNames = []string{"MarshalBinary", "WriteTo(io.Writer)", "WriteTo(bufio.Writer)", "WriteTo(buffer.Buffer)"}

// drawSchedule draws a chunk schedule for a reader over L bytes.
func drawSchedule(ctx *core.RunCtx, r *simio.Reader, L int) string {
	ch := ctx.Ch
	switch ch.Weighted("chunking", []int{3, 3, 3, 2, 3, 2}) {
	case 0:
		r.Sched = simio.Whole()
		return "whole"
	case 1:
		r.Sched = simio.Fixed(1)
		ctx.Count("fault.chunk-1-byte", 1)
		return "1-byte"
	case 2:
		k := 2 + ch.Draw("chunk-k", 96)
		r.Sched = simio.Fixed(k)
		ctx.Count("fault.chunk-fixed", 1)
		return fmt.Sprintf("fixed-%d", k)
	case 3:
		r.Halve = true
		r.Sched = simio.Whole()
		ctx.Count("fault.chunk-halves", 1)
		return "halves"
	case 4:
		sub := core.NewXoshiro(uint64(ch.Draw("chunk-seed", 1<<16)))
		max := 1 + ch.Draw("chunk-max", 200)
		r.Sched = simio.FromFunc(sub.Next, max)
		ctx.Count("fault.chunk-random", 1)
		return fmt.Sprintf("random<=%d", max)
	default:
		// a few cuts at drawn absolute offsets (small offsets = header region)
		var cuts []int
		nc := 1 + ch.Draw("ncuts", 3)
		for i := 0; i < nc; i++ {
			lim := L
			if ch.Bool("cut-in-header") && lim > 200 {
				lim = 200
			}
			if lim < 1 {
				lim = 1
			}
			cuts = append(cuts, ch.Draw("cut", lim))
		}
		sortInts(cuts)
		r.Sched = simio.Cuts(r, cuts)
		ctx.Count("fault.chunk-cuts", 1)
		return fmt.Sprintf("cuts%v", cuts)
	}
}

func sortInts(a []int) {
	for i := 1; i < len(a); i++ {
		for j := i; j > 0 && a[j] < a[j-1]; j-- {
			a[j], a[j-1] = a[j-1], a[j]
		}
	}
}

func drawBufSize(ch *core.Chooser) int {
	switch ch.Weighted("bufio-size", []int{3, 2, 2, 2}) {
	case 0:
		return 4096
	case 1:
		return 16 << ch.Draw("bufio-pow", 10) // 16..8192
	case 2:
		return 16 + ch.Draw("bufio-odd", 1000) // includes sizes that are not multiples of 8
	default:
		return 16 + 8*ch.Draw("bufio-mul8", 64)
	}
}

// readVia decodes data into recv through the chosen entry point.
// It returns the call result and the number of bytes the stream delivered.
func readVia(kind int, recv ser, rd *simio.Reader, bufSize int, data []byte, measure bool) callResult {
	switch kind {
	case rdPlain:
		return guarded(measure, func() (int64, error) { return recv.(io.ReaderFrom).ReadFrom(rd) })
	case rdBufio:
		br := bufio.NewReaderSize(rd, bufSize)
		return guarded(measure, func() (int64, error) { return recv.(io.ReaderFrom).ReadFrom(br) })
	case rdBuffer:
		return guarded(measure, func() (int64, error) { return recv.(io.ReaderFrom).ReadFrom(buffer.NewBuffer(data)) })
	default:
		return guarded(measure, func() (int64, error) { return int64(len(data)), recv.UnmarshalBinary(data) })
	}
}

func (p c08) Run(ctx *core.RunCtx) {
	ch := ctx.Ch
	g := newC08Gen(ctx)
	entries := c08Catalog()
	mode := ch.Weighted("mode", []int{11, 1})
	nobj := 1 + ch.Draw("nobj", 4)
	if mode == 1 {
		nobj = 1
	}
	type obj struct {
		e    *c08Entry
		v    ser
		data []byte
	}
	var objs []obj
	for i := 0; i < nobj; i++ {
		var e *c08Entry
		for {
			e = &entries[ch.Draw("type", len(entries))]
			if !e.Heavy || ctx.Tier == "thorough" {
				break
			}
		}
		var v ser
		pk, site, msg := core.Protect(func() { v = e.Gen(g) })
		if pk {
			ctx.Harness("generator of %s panicked in %s: %s", e.Name, site, msg)
		}
		ctx.Event("object %d: %s", i, e.Name)
		ctx.Count("type."+e.Name, 1)
		data, ok := p.writePhase(ctx, e, v)
		if !ok {
			continue
		}
		objs = append(objs, obj{e, v, data})
		p.readPhase(ctx, g, e, v, data)
		p.jsonPhase(ctx, g, e, v)
		if mode == 1 {
			p.sweep(ctx, g, e, v, data)
		} else {
			p.faultPhase(ctx, g, e, v, data)
		}
	}
	if len(objs) >= 2 {
		var es []*c08Entry
		var vs []ser
		var ds [][]byte
		for _, o := range objs {
			if _, ok := o.v.(streamSer); ok {
				es, vs, ds = append(es, o.e), append(vs, o.v), append(ds, o.data)
			}
		}
		if len(es) >= 2 {
			p.streamPhase(ctx, g, es, vs, ds)
		}
	}
}

// writePhase serializes v through every entry point and checks byte identity,
// announced size, byte accounting and delivery to the sink.
func (p c08) writePhase(ctx *core.RunCtx, e *c08Entry, v ser) ([]byte, bool) {
	size := 0
	if r := guarded(false, func() (int64, error) { size = v.BinarySize(); return 0, nil }); r.panicked {
		ctx.Fail("write", e.Name+"|BinarySize|panic", "BinarySize panicked in %s: %s", r.site, r.msg)
		return nil, false
	}
	var ref []byte
	r := guarded(false, func() (int64, error) { b, err := v.MarshalBinary(); ref = b; return int64(len(b)), err })
	ctx.Count("oracle.write", 1)
	if r.panicked {
		ctx.Fail("write", e.Name+"|MarshalBinary|panic", "MarshalBinary panicked in %s: %s", r.site, r.msg)
		return nil, false
	}
	if r.err != nil {
		ctx.Fail("write", e.Name+"|MarshalBinary|error", "MarshalBinary of a valid object failed: %v", r.err)
		return nil, false
	}
	if len(ref) != size {
		ctx.Fail("write", e.Name+"|MarshalBinary|size", "BinarySize()=%d but MarshalBinary produced %d bytes", size, len(ref))
		return nil, false
	}
	ws, isStream := v.(io.WriterTo)
	if !isStream {
		return ref, true
	}
	for kind := wrPlain; kind < wrKinds; kind++ {
		var got []byte
		var n int64
		var err error
		var res callResult
		switch kind {
		case wrPlain:
			sink := simio.NewSink(-1)
			res = guarded(false, func() (int64, error) { return ws.WriteTo(sink) })
			got = sink.Buf
		case wrBufio:
			sink := simio.NewSink(-1)
			bw := bufio.NewWriterSize(sink, drawBufSize(ctx.Ch))
			res = guarded(false, func() (int64, error) { return ws.WriteTo(bw) })
			if !res.panicked {
				bw.Flush() // the caller owns this writer; flushing it is the caller's job
			}
			got = sink.Buf
		case wrBuffer:
			bb := buffer.NewBufferSize(size)
			res = guarded(false, func() (int64, error) { return ws.WriteTo(bb) })
			got = bb.Bytes()
		}
		n, err = res.n, res.err
		ctx.Count("oracle.write", 1)
		cls := e.Name + "|" + wrNames[kind]
		if res.panicked {
			ctx.Fail("write", cls+"|panic", "panicked in %s: %s", res.site, res.msg)
			return nil, false
		}
		if err != nil {
			ctx.Fail("write", cls+"|error", "writing a valid object failed: %v", err)
			return nil, false
		}
		if n != int64(size) {
			ctx.Fail("write", cls+"|n", "returned n=%d, BinarySize()=%d", n, size)
			return nil, false
		}
		if !bytes.Equal(got, ref) {
			ctx.Fail("write", cls+"|bytes", "bytes delivered to the sink (%d) differ from MarshalBinary (%d): %s", len(got), len(ref), firstDiff(got, ref))
			return nil, false
		}
	}
	return ref, true
}

func firstDiff(a, b []byte) string {
	n := len(a)
	if len(b) < n {
		n = len(b)
	}
	for i := 0; i < n; i++ {
		if a[i] != b[i] {
			return fmt.Sprintf("first difference at offset %d", i)
		}
	}
	return fmt.Sprintf("common prefix of %d bytes", n)
}

// checkDecoded verifies that recv equals v: own Equal, re-encoding, size.
func (p c08) checkDecoded(ctx *core.RunCtx, e *c08Entry, cls string, recv, v ser, data []byte) bool {
	ctx.Count("oracle.decoded-equal", 1)
	var re []byte
	r := guarded(false, func() (int64, error) { b, err := recv.MarshalBinary(); re = b; return 0, err })
	if r.panicked || r.err != nil {
		ctx.Fail("read", cls+"|reencode", "re-encoding the decoded object failed: panicked=%v %s %v", r.panicked, r.msg, r.err)
		return false
	}
	if !bytes.Equal(re, data) {
		ctx.Fail("read", cls+"|differs", "decoded object re-encodes to %d bytes, original %d bytes: %s", len(re), len(data), firstDiff(re, data))
		return false
	}
	if e.Equal != nil {
		var eq, ok bool
		r := guarded(false, func() (int64, error) { eq, ok = e.Equal(v, recv); return 0, nil })
		if r.panicked {
			ctx.Fail("read", cls+"|equal-panic", "Equal(original, decoded) panicked in %s: %s", r.site, r.msg)
			return false
		}
		if ok && !eq {
			ctx.Fail("read", cls+"|not-equal", "decoded object is not Equal to the original although it re-encodes identically")
			return false
		}
	}
	if bs := recv.BinarySize(); bs != len(data) {
		ctx.Fail("read", cls+"|size", "decoded object announces BinarySize %d, original %d", bs, len(data))
		return false
	}
	return true
}

// readPhase: fault-free transport (any chunking), fresh and dirty receivers.
func (p c08) readPhase(ctx *core.RunCtx, g *c08Gen, e *c08Entry, v ser, data []byte) {
	ch := ctx.Ch
	_, isStream := v.(io.ReaderFrom)
	rounds := 2
	for round := 0; round < rounds; round++ {
		kind := rdUnmarshal
		if isStream {
			kind = ch.Draw("read-kind", rdKinds)
		}
		dirty := !e.NoDirty && ch.Chance("dirty", 1, 2)
		var recv ser
		if dirty {
			gg := g
			if ch.Chance("receiver-of-smaller-ring", 1, 6) {
				// the receiver held a value over the ring of half the degree (same moduli): every row has to grow
				if gs := g.halfDegree(); gs != nil {
					gg = gs
					ctx.Count("fault.receiver-from-a-smaller-ring", 1)
				}
			}
			pk, site, msg := core.Protect(func() { recv = e.Gen(gg) })
			if pk {
				ctx.Harness("generator of %s panicked in %s: %s", e.Name, site, msg)
			}
			ctx.Count("fault.dirty-receiver", 1)
			if ch.Chance("shrunk-receiver", 1, 3) {
				// a receiver that was resized to fewer rows after use (what Resize / level dropping does): shorter
				// than its capacity, with the old rows still behind the length
				if n := shrinkRows(reflect.ValueOf(recv), 1+ch.Draw("shrunk-rows", 3), 0); n > 0 {
					ctx.Count("fault.receiver-shorter-than-capacity", 1)
				}
			}
		} else {
			recv = e.New()
		}
		rd := simio.NewReader(data, nil)
		sched := "n/a"
		bufSize := 0
		if kind == rdPlain || kind == rdBufio {
			sched = drawSchedule(ctx, rd, len(data))
			rd.EOFWithData = ch.Chance("eof-with-data", 1, 4)
			if rd.EOFWithData {
				ctx.Count("fault.eof-with-last-chunk", 1)
			}
		}
		if kind == rdBufio {
			bufSize = drawBufSize(ch)
			if bufSize%8 != 0 {
				ctx.Count("probe.bufio-size-not-multiple-of-8", 1)
			}
		}
		by, byHash := metadataBystander(underlying(recv))
		res := readVia(kind, recv, rd, bufSize, data, false)
		dn := "fresh"
		if dirty {
			dn = "dirty"
		}
		if by != nil && bystanderHash(by) != byHash {
			ctx.Fail("read", e.Name+"|"+rdNames[kind]+"|"+dn+"|bystander-modified", "decoding into a %s receiver changed another object: a metadata value that had been copied by assignment from the receiver's metadata before the call", dn)
			return
		}
		ctx.Event("read %s %s recv=%s sched=%s buf=%d -> n=%d err=%v", e.Name, rdNames[kind], dn, sched, bufSize, res.n, res.err)
		ctx.Nontrivial = ctx.Nontrivial || dirty || sched != "whole" && sched != "n/a"
		cls := e.Name + "|" + rdNames[kind] + "|" + dn
		ctx.Count("oracle.read", 1)
		switch {
		case res.panicked:
			ctx.Fail("read", cls+"|panic", "decoding valid bytes (%s, %s) panicked in %s: %s", sched, dn, res.site, res.msg)
			continue
		case res.hang:
			ctx.Fail("read", cls+"|hang", "decoding valid bytes keeps reading after the end of the stream (%s)", sched)
			continue
		case res.err != nil:
			ctx.Fail("read", cls+"|error", "decoding valid bytes failed (chunking %s, bufio size %d, %s receiver): %v", sched, bufSize, dn, res.err)
			continue
		case res.n != int64(len(data)):
			ctx.Fail("read", cls+"|n", "returned n=%d for an encoding of %d bytes (chunking %s, bufio %d)", res.n, len(data), sched, bufSize)
			continue
		}
		p.checkDecoded(ctx, e, cls, recv, v, data)
	}
}

// streamPhase: several objects back-to-back on one stream, read through one
// caller-owned bufio.Reader.
func (p c08) streamPhase(ctx *core.RunCtx, g *c08Gen, es []*c08Entry, vs []ser, ds [][]byte) {
	ch := ctx.Ch
	// one buffer.Buffer (the library's slice-backed transport) reused for every object: Reset, write, read back
	{
		size := 0
		for _, d := range ds {
			if len(d) > size {
				size = len(d)
			}
		}
		bb := buffer.NewBufferSize(size + 8*ch.Draw("reused-buffer-slack", 3))
		for i, v := range vs {
			bb.Reset()
			cls := es[i].Name + "|reused buffer.Buffer"
			res := guarded(false, func() (int64, error) { return v.(io.WriterTo).WriteTo(bb) })
			if res.panicked || res.err != nil || res.n != int64(len(ds[i])) {
				ctx.Fail("stream", cls+"|write", "object %d written into a buffer.Buffer after Reset: n=%d want %d err=%v panic=%v %s", i, res.n, len(ds[i]), res.err, res.panicked, res.msg)
				return
			}
			if !bytes.Equal(bb.Bytes()[:len(ds[i])], ds[i]) {
				ctx.Fail("stream", cls+"|bytes", "object %d written into a buffer.Buffer after Reset: %s", i, firstDiff(bb.Bytes()[:len(ds[i])], ds[i]))
				return
			}
			recv := es[i].New()
			res = guarded(false, func() (int64, error) { return recv.(io.ReaderFrom).ReadFrom(bb) })
			ctx.Count("oracle.stream-read", 1)
			if res.panicked || res.hang || res.err != nil || res.n != int64(len(ds[i])) {
				ctx.Fail("stream", cls+"|read", "object %d (%s) read back from a buffer.Buffer that was Reset and rewritten: n=%d want %d err=%v panic=%v %s", i, es[i].Name, res.n, len(ds[i]), res.err, res.panicked, res.msg)
				return
			}
			if !p.checkDecoded(ctx, es[i], cls, recv, vs[i], ds[i]) {
				return
			}
		}
		ctx.Count("fault.transport-buffer-reused", 1)
	}
	sink := simio.NewSink(-1)
	bw := bufio.NewWriterSize(sink, drawBufSize(ch))
	total := 0
	for i, v := range vs {
		res := guarded(false, func() (int64, error) { return v.(io.WriterTo).WriteTo(bw) })
		if res.panicked || res.err != nil || res.n != int64(len(ds[i])) {
			ctx.Fail("stream", es[i].Name+"|WriteTo(shared bufio.Writer)", "object %d on a shared writer: n=%d want %d err=%v panic=%v %s", i, res.n, len(ds[i]), res.err, res.panicked, res.msg)
			return
		}
		total += len(ds[i])
	}
	bw.Flush()
	var want []byte
	for _, d := range ds {
		want = append(want, d...)
	}
	ctx.Count("oracle.stream-write", 1)
	if !bytes.Equal(sink.Buf, want) {
		ctx.Fail("stream", "concatenation|bytes", "objects written back-to-back give %d bytes, concatenation of encodings %d: %s", len(sink.Buf), len(want), firstDiff(sink.Buf, want))
		return
	}
	rd := simio.NewReader(want, nil)
	sched := drawSchedule(ctx, rd, len(want))
	bufSize := drawBufSize(ch)
	br := bufio.NewReaderSize(rd, bufSize)
	ctx.Nontrivial = true
	ctx.Count("fault.multi-object-stream", 1)
	var consumed int64
	for i, e := range es {
		recv := e.New()
		res := guarded(false, func() (int64, error) { return recv.(io.ReaderFrom).ReadFrom(br) })
		cls := e.Name + "|stream-position-" + fmt.Sprint(min(i, 1))
		ctx.Event("stream read %d %s sched=%s buf=%d n=%d err=%v", i, e.Name, sched, bufSize, res.n, res.err)
		ctx.Count("oracle.stream-read", 1)
		if res.panicked {
			ctx.Fail("stream", cls+"|panic", "object %d of a stream panicked in %s: %s", i, res.site, res.msg)
			return
		}
		if res.hang {
			ctx.Fail("stream", cls+"|hang", "object %d of a stream: reads past the end", i)
			return
		}
		if res.err != nil {
			ctx.Fail("stream", cls+"|error", "object %d (%s) of a %d-object stream failed (chunking %s, bufio %d): %v", i, e.Name, len(es), sched, bufSize, res.err)
			return
		}
		if res.n != int64(len(ds[i])) {
			ctx.Fail("stream", cls+"|n", "object %d (%s): consumed n=%d, encoding has %d bytes", i, e.Name, res.n, len(ds[i]))
			return
		}
		if !p.checkDecoded(ctx, e, cls, recv, vs[i], ds[i]) {
			return
		}
		consumed += res.n
		// the stream position after object i must be exactly the sum of sizes
		pos := int64(rd.Pos() - br.Buffered())
		if pos != consumed {
			ctx.Fail("stream", cls+"|position", "after object %d the stream is at offset %d, sum of sizes is %d", i, pos, consumed)
			return
		}
	}
}

var endErrs = []error{io.EOF, io.ErrUnexpectedEOF, simio.ErrInjected}

// truncatedRead delivers data[:k] then ends; a nil error is a violation.
func (p c08) truncatedRead(ctx *core.RunCtx, e *c08Entry, data []byte, k int, kind int, endErr error, sched func(*simio.Reader), bufSize int, recv ser) bool {
	cut := data[:k:k]
	rd := simio.NewReader(cut, nil)
	rd.EndErr = endErr
	if sched != nil {
		sched(rd)
	}
	res := readVia(kind, recv, rd, bufSize, cut, true)
	ctx.Count("fault.truncation", 1)
	ctx.Count("oracle.truncation", 1)
	cls := e.Name + "|" + rdNames[kind] + "|truncated"
	switch {
	case res.panicked:
		ctx.Event("truncate %s at %d/%d via %s -> panic %s", e.Name, k, len(data), rdNames[kind], res.site)
		ctx.Fail("truncation", cls+"|panic", "stream of %d bytes cut at %d: panic in %s: %s", len(data), k, res.site, res.msg)
		return false
	case res.hang:
		ctx.Fail("truncation", cls+"|hang", "stream of %d bytes cut at %d: decoder keeps reading after the end (no progress)", len(data), k)
		return false
	case res.err == nil:
		ctx.Event("truncate %s at %d/%d via %s -> nil error", e.Name, k, len(data), rdNames[kind])
		ctx.Fail("truncation", cls+"|accepted", "stream of %d bytes cut at %d was accepted with a nil error (n=%d)", len(data), k, res.n)
		return false
	case res.alloc > 1<<30:
		ctx.Fail("truncation", cls+"|alloc", "stream cut at %d: %d bytes allocated", k, res.alloc)
		return false
	}
	return true
}

// failingWrite lets the sink fail after k bytes; a nil error is a violation.
func (p c08) failingWrite(ctx *core.RunCtx, e *c08Entry, v ser, size, k int, kind int, partial bool, bufSize int) bool {
	sink := simio.NewSink(k)
	sink.Partial = partial
	var res callResult
	ws := v.(io.WriterTo)
	switch kind {
	case wrPlain:
		res = guarded(false, func() (int64, error) { return ws.WriteTo(sink) })
	default:
		bw := bufio.NewWriterSize(sink, bufSize)
		res = guarded(false, func() (int64, error) {
			n, err := ws.WriteTo(bw)
			if err == nil {
				// the caller flushes its own writer; a failure surfacing only
				// here is reported to the caller, which is fine
				err = bw.Flush()
			}
			return n, err
		})
	}
	ctx.Count("fault.sink-failure", 1)
	ctx.Count("oracle.sink-failure", 1)
	cls := e.Name + "|" + wrNames[kind] + "|sink-fails"
	switch {
	case res.panicked:
		ctx.Fail("write-fault", cls+"|panic", "sink failing after %d of %d bytes: panic in %s: %s", k, size, res.site, res.msg)
		return false
	case res.err == nil:
		ctx.Event("sink fails at %d/%d via %s -> nil error n=%d", k, size, wrNames[kind], res.n)
		ctx.Fail("write-fault", cls+"|accepted", "sink failed after %d of %d bytes but WriteTo returned nil (n=%d, %d bytes delivered)", k, size, res.n, len(sink.Buf))
		return false
	}
	// the count returned with the error: everything the sink received went through the writer, so at least
	// that many bytes were written, and no more than the object has
	ctx.Count("oracle.sink-failure-count", 1)
	if res.n < int64(len(sink.Buf)) || res.n > int64(size) {
		ctx.Fail("write-fault", cls+"|n", "sink failing after %d of %d bytes: WriteTo returned n=%d with its error, but %d bytes had reached the sink (the object has %d)", k, size, res.n, len(sink.Buf), size)
		return false
	}
	return true
}

// faultPhase: a few drawn faults on this object.
func (p c08) faultPhase(ctx *core.RunCtx, g *c08Gen, e *c08Entry, v ser, data []byte) {
	ch := ctx.Ch
	L := len(data)
	_, isStream := v.(io.ReaderFrom)
	nf := ch.Draw("nfaults", 4)
	for f := 0; f < nf; f++ {
		what := ch.Weighted("fault-kind", []int{4, 2, 4})
		if !isStream && what == 1 {
			what = 0
		}
		switch what {
		case 0: // truncation
			if L == 0 {
				continue
			}
			k := ch.Draw("trunc-offset", L)
			if ch.Bool("trunc-near-start") && L > 64 {
				k = ch.Draw("trunc-head", 64)
			} else if ch.Chance("trunc-near-end", 1, 4) {
				// the last bytes: trailing optional members, final flags
				k = L - 1 - ch.Draw("trunc-tail", minInt(L, 8))
			}
			kind := rdUnmarshal
			if isStream {
				kind = ch.Draw("trunc-kind", rdKinds)
			}
			endErr := endErrs[ch.Draw("end-err", len(endErrs))]
			var sched func(*simio.Reader)
			bufSize := 0
			if kind == rdPlain || kind == rdBufio {
				one := ch.Bool("trunc-1byte")
				eofData := ch.Bool("trunc-eof-with-data")
				sched = func(r *simio.Reader) {
					if one {
						r.Sched = simio.Fixed(1)
					}
					r.EOFWithData = eofData
				}
				bufSize = drawBufSize(ch)
			}
			var recv ser
			if !e.NoDirty && ch.Chance("trunc-dirty", 1, 3) {
				recv = e.Gen(g)
			} else {
				recv = e.New()
			}
			ctx.Nontrivial = true
			ctx.Event("fault truncation %s at %d/%d via %s end=%v", e.Name, k, L, rdNames[kind], endErr)
			p.truncatedRead(ctx, e, data, k, kind, endErr, sched, bufSize, recv)
		case 1: // sink failure
			if L == 0 {
				continue
			}
			k := ch.Draw("sink-offset", L)
			kind := wrPlain + ch.Draw("sink-kind", 2)
			ctx.Nontrivial = true
			ctx.Event("fault sink-failure %s at %d/%d via %s", e.Name, k, L, wrNames[kind])
			p.failingWrite(ctx, e, v, L, k, kind, ch.Bool("sink-partial"), drawBufSize(ch))
			if ch.Chance("small-slice-buffer", 1, 3) {
				// the library's own slice-backed writer, too small for the object: as a slice of k bytes, or as a
				// slice of k bytes cut from a larger array (length below capacity)
				backing := make([]byte, k, k+ch.Draw("slice-buffer-extra-cap", 2)*L)
				res := guarded(false, func() (int64, error) { return v.(io.WriterTo).WriteTo(buffer.NewBuffer(backing)) })
				ctx.Count("fault.sink-failure", 1)
				ctx.Count("oracle.sink-failure", 1)
				if res.panicked {
					ctx.Fail("write-fault", e.Name+"|WriteTo(buffer.Buffer)|too-small|panic", "WriteTo into a buffer.Buffer over a %d-byte slice (capacity %d) for an object of %d bytes panicked in %s: %s", k, cap(backing), L, res.site, res.msg)
					return
				}
				if res.err == nil && k < L {
					ctx.Fail("write-fault", e.Name+"|WriteTo(buffer.Buffer)|too-small|accepted", "WriteTo into a buffer.Buffer over a %d-byte slice (capacity %d) returned nil for an object of %d bytes (n=%d)", k, cap(backing), L, res.n)
					return
				}
			}
		case 2: // header corruption
			p.corrupt(ctx, g, e, v, data)
		}
	}
}

// sweep enumerates every truncation offset and every sink-failure offset.
func (p c08) sweep(ctx *core.RunCtx, g *c08Gen, e *c08Entry, v ser, data []byte) {
	L := len(data)
	if L > 6000 {
		return
	}
	ch := ctx.Ch
	_, isStream := v.(io.ReaderFrom)
	one := ch.Bool("sweep-1byte")
	bufSize := drawBufSize(ch)
	endErr := endErrs[ch.Draw("sweep-end-err", len(endErrs))]
	ctx.Event("sweep %s L=%d", e.Name, L)
	ctx.Count("probe.full-offset-sweeps", 1)
	ctx.Nontrivial = true
	for k := 0; k < L; k++ {
		if !p.truncatedRead(ctx, e, data, k, rdUnmarshal, endErr, nil, 0, e.New()) {
			return
		}
		if isStream {
			sched := func(r *simio.Reader) {
				if one {
					r.Sched = simio.Fixed(1)
				}
			}
			if !p.truncatedRead(ctx, e, data, k, rdPlain, endErr, sched, 0, e.New()) {
				return
			}
			if !p.truncatedRead(ctx, e, data, k, rdBufio, endErr, sched, bufSize, e.New()) {
				return
			}
			if !p.failingWrite(ctx, e, v, L, k, wrPlain, k%2 == 0, 0) {
				return
			}
			if !p.failingWrite(ctx, e, v, L, k, wrBufio, k%2 == 1, bufSize) {
				return
			}
		}
	}
}

// corrupt replaces one header field and decodes the result.
func (p c08) corrupt(ctx *core.RunCtx, g *c08Gen, e *c08Entry, v ser, data []byte) {
	ch := ctx.Ch
	L := len(data)
	if L == 0 {
		return
	}
	// candidate header positions, found without knowing the format: 8/4-byte
	// little-endian words holding a small integer, and 0/1 bytes in front of
	// them; plus the positions in which a second value of the type differs
	// in its first bytes.
	var cands []int
	lim := L
	if lim > 4096 {
		lim = 4096
	}
	for i := 0; i+8 <= lim; i++ {
		w := uint64(0)
		for j := 7; j >= 0; j-- {
			w = w<<8 | uint64(data[i+j])
		}
		if w < 1<<16 {
			cands = append(cands, i)
		}
	}
	for i := 0; i < lim && i < 64; i++ {
		if data[i] <= 2 {
			cands = append(cands, i)
		}
	}
	if len(cands) == 0 {
		cands = append(cands, 0)
	}
	pos := cands[ch.Draw("corrupt-pos", len(cands))]
	width := []int{1, 4, 8}[ch.Draw("corrupt-width", 3)]
	if pos+width > L {
		width = 1
	}
	vals := []uint64{0, 1, 2, 0xff, 1 << 31, 1 << 32, 1<<62 + 12345, ^uint64(0), 0x7fffffffffffffff, 1 << 20, 1 << 40}
	val := vals[ch.Draw("corrupt-val", len(vals))]
	// textual fields (the metadata of plaintexts, ciphertexts and shares is JSON text inside the binary
	// encoding): one character of a quoted number replaced by another printable one
	var text []int
	for i := 1; i+1 < lim; i++ {
		c := data[i]
		if (c >= '0' && c <= '9' || c == '.' || c == 'e' || c == '+' || c == 'x') && isTextByte(data[i-1]) && isTextByte(data[i+1]) {
			text = append(text, i)
		}
	}
	textual := len(text) > 0 && ch.Chance("corrupt-text", 1, 3)
	if textual {
		pos, width = text[ch.Draw("corrupt-text-pos", len(text))], 1
		val = uint64([]byte{'x', 'e', '-', '9', '.', ' ', 'Z', '"', '}'}[ch.Draw("corrupt-text-val", 9)])
	}
	if !textual && ch.Bool("corrupt-relative") {
		// old value +-1 / x2
		old := uint64(0)
		for j := width - 1; j >= 0; j-- {
			old = old<<8 | uint64(data[pos+j])
		}
		val = []uint64{old + 1, old - 1, old * 2, old ^ 1}[ch.Draw("corrupt-rel", 4)]
	}
	bad := append([]byte{}, data...)
	for j := 0; j < width; j++ {
		bad[pos+j] = byte(val >> (8 * j))
	}
	// encodings that are text as a whole (parameter sets and literals): one number replaced by an extreme one
	// (the length of the text changes with it)
	if len(data) > 2 && (data[0] == '{' || data[0] == '[') && ch.Chance("corrupt-number", 1, 2) {
		var starts []int
		for i := 1; i < L; i++ {
			if data[i] >= '0' && data[i] <= '9' && !(data[i-1] >= '0' && data[i-1] <= '9') && data[i-1] != '.' && data[i-1] != 'e' && data[i-1] != '-' && data[i-1] != '+' && data[i-1] != 'x' {
				starts = append(starts, i)
			}
		}
		if len(starts) > 0 {
			st := starts[ch.Draw("corrupt-number-pos", len(starts))]
			en := st
			for en < L && (data[en] >= '0' && data[en] <= '9' || data[en] == '.' || data[en] == 'e' || data[en] == '+' || data[en] == '-' || data[en] == 'x' || data[en] >= 'a' && data[en] <= 'f') {
				en++
			}
			nums := []string{"0", "1", "2", "63", "64", "65", "255", "256", "1023", "1024", "65536", "4294967296", "18446744073709551615", "18446744073709551616", "1e999", "-1", "0.5"}
			rep := nums[ch.Draw("corrupt-number-val", len(nums))]
			bad = append(append(append([]byte{}, data[:st]...), rep...), data[en:]...)
			pos, width, val, textual = st, en-st, 0, true
			ctx.Count("fault.number-replaced", 1)
		}
	}
	if bytes.Equal(bad, data) {
		return
	}
	_, isStream := v.(io.ReaderFrom)
	kind := rdUnmarshal
	if isStream {
		kind = ch.Draw("corrupt-kind", rdKinds)
	}
	recv := e.New()
	rd := simio.NewReader(bad, nil)
	res := readVia(kind, recv, rd, 4096, bad, true)
	ctx.Count("fault.header-corruption", 1)
	ctx.Count("oracle.corruption", 1)
	ctx.Nontrivial = true
	ctx.Event("fault corruption %s pos=%d width=%d val=%#x via %s -> n=%d err=%v panic=%v", e.Name, pos, width, val, rdNames[kind], res.n, res.err, res.panicked)
	cls := e.Name + "|" + rdNames[kind] + "|corrupted"
	switch {
	case res.panicked:
		ctx.Fail("corruption", cls+"|panic", "encoding of %d bytes with %d bytes at offset %d replaced by %#x: panic in %s: %s", L, width, pos, val, res.site, res.msg)
		return
	case res.hang:
		ctx.Fail("corruption", cls+"|hang", "corrupted encoding: decoder keeps reading after the end of the stream")
		return
	case res.alloc > 1<<30:
		ctx.Fail("corruption", cls+"|alloc", "corrupted %d-byte encoding (offset %d := %#x) made the decoder allocate %d bytes", L, pos, val, res.alloc)
		return
	}
	if res.err == nil {
		// accepted: must be a self-consistent object that accounts for the bytes it consumed
		ctx.Count("probe.corruption-accepted", 1)
		var re []byte
		r2 := guarded(false, func() (int64, error) { b, err := recv.MarshalBinary(); re = b; return 0, err })
		if r2.panicked {
			ctx.Fail("corruption", cls+"|accepted-inconsistent", "corrupted encoding accepted with nil error, and the decoded object cannot be re-encoded: panic in %s: %s", r2.site, r2.msg)
			return
		}
		// (a changed character of a textual field can give another valid text whose canonical form has another
		// length: the byte accounting below is a statement about binary length and flag fields only)
		// a flag inside a textual field is written as "0x00" / "0x01": when one of its characters was replaced and the
		// text is still accepted, the flag the decoder took for it is the one it writes back - a value outside the
		// domain of the flag that is silently read as another one is a corrupted flag accepted without an error
		if textual && width == 1 && r2.err == nil && len(re) == len(bad) {
			for st := pos - 3; st <= pos; st++ {
				if st >= 1 && st+4 <= len(bad) && bad[st] == '0' && bad[st+1] == 'x' && bad[st-1] == '"' && st+4 < len(bad) && bad[st+4] == '"' && pos >= st+2 {
					if string(re[st:st+4]) != string(bad[st:st+4]) && data[st] == '0' && data[st+1] == 'x' {
						ctx.Fail("corruption", cls+"|flag-out-of-domain-accepted", "a flag written as %q was corrupted to %q and accepted with a nil error: the decoded object writes %q there", string(data[st:st+4]), string(bad[st:st+4]), string(re[st:st+4]))
						return
					}
				}
			}
		}
		if r2.err == nil && kind != rdUnmarshal && !e.Keyed && !textual && int64(len(re)) != res.n {
			ctx.Fail("corruption", cls+"|accepted-truncated", "corrupted encoding accepted with nil error: claims n=%d consumed but the decoded object encodes to %d bytes", res.n, len(re))
			return
		}
	} else {
		ctx.Count("probe.corruption-rejected", 1)
	}
	_ = errors.Is
}

func isTextByte(c byte) bool { return c >= 0x20 && c < 0x7f }

func underlying(v ser) any {
	if u, ok := v.(interface{ unwrap() any }); ok {
		return u.unwrap()
	}
	return v
}

// jsonPhase: MarshalJSON / UnmarshalJSON round trip into fresh and dirty receivers.
func (p c08) jsonPhase(ctx *core.RunCtx, g *c08Gen, e *c08Entry, v ser) {
	if !e.JSON {
		return
	}
	u := underlying(v)
	if _, ok := u.(json.Marshaler); !ok {
		ctx.Harness("%s is flagged JSON but does not implement json.Marshaler", e.Name)
	}
	if _, ok := u.(json.Unmarshaler); !ok {
		return
	}
	var js []byte
	r := guarded(false, func() (int64, error) { b, err := json.Marshal(u); js = b; return int64(len(b)), err })
	ctx.Count("oracle.json", 1)
	cls := e.Name + "|JSON"
	if r.panicked || r.err != nil {
		ctx.Fail("json", cls+"|marshal", "json.Marshal of a valid object failed: panic=%v %s err=%v", r.panicked, r.msg, r.err)
		return
	}
	for round := 0; round < 2; round++ {
		var recv ser
		dn := "fresh"
		if round == 1 {
			if e.NoDirty {
				continue
			}
			recv, dn = e.Gen(g), "dirty"
			ctx.Count("fault.dirty-receiver", 1)
		} else {
			recv = e.New()
		}
		ru := underlying(recv)
		by, byHash := metadataBystander(ru)
		r := guarded(false, func() (int64, error) { return 0, json.Unmarshal(js, ru) })
		if by != nil && bystanderHash(by) != byHash {
			ctx.Fail("json", cls+"|"+dn+"|bystander-modified", "json.Unmarshal into a %s receiver changed another object: a metadata value that had been copied (by assignment, as the library's operations do) from the receiver's metadata before the call", dn)
			return
		}
		if r.panicked || r.err != nil {
			ctx.Fail("json", cls+"|"+dn+"|unmarshal", "json.Unmarshal of the object's own JSON into a %s receiver failed: panic=%v %s err=%v", dn, r.panicked, r.msg, r.err)
			return
		}
		var js2 []byte
		r = guarded(false, func() (int64, error) { b, err := json.Marshal(ru); js2 = b; return 0, err })
		if r.panicked || r.err != nil || !bytes.Equal(js, js2) {
			ctx.Fail("json", cls+"|"+dn+"|differs", "the object decoded from JSON into a %s receiver re-encodes differently (%d vs %d bytes; err=%v): %s", dn, len(js2), len(js), r.err, firstDiff(js2, js))
			return
		}
		if e.Equal != nil {
			var eq, ok bool
			r := guarded(false, func() (int64, error) { eq, ok = e.Equal(v, recv); return 0, nil })
			if r.panicked || ok && !eq {
				ctx.Fail("json", cls+"|"+dn+"|not-equal", "the object decoded from JSON into a %s receiver is not Equal to the original (panic=%v %s)", dn, r.panicked, r.msg)
				return
			}
		}
	}
}

// shrinkRows re-slices every slice of slices reachable from v to at most rows elements, keeping its
// capacity (the state a polynomial is in after Resize to a lower level). It returns the number of slices shortened.
func shrinkRows(v reflect.Value, rows int, depth int) int {
	if depth > 12 || !v.IsValid() {
		return 0
	}
	n := 0
	switch v.Kind() {
	case reflect.Ptr, reflect.Interface:
		if !v.IsNil() {
			n += shrinkRows(v.Elem(), rows, depth+1)
		}
	case reflect.Struct:
		for i := 0; i < v.NumField(); i++ {
			f := v.Field(i)
			if !f.CanSet() && f.CanAddr() {
				f = reflect.NewAt(f.Type(), unsafe.Pointer(f.UnsafeAddr())).Elem()
			}
			n += shrinkRows(f, rows, depth+1)
		}
	case reflect.Slice:
		if v.IsNil() {
			return 0
		}
		if v.Type().Elem().Kind() == reflect.Slice && v.Type().Elem().Elem().Kind() != reflect.Slice && v.Len() > rows && v.CanSet() {
			v.Set(v.Slice(0, rows))
			n++
		}
		if k := v.Type().Elem().Kind(); k == reflect.Struct || k == reflect.Slice || k == reflect.Ptr || k == reflect.Interface {
			for i := 0; i < v.Len(); i++ {
				n += shrinkRows(v.Index(i), rows, depth+1)
			}
		}
	case reflect.Map:
		for _, k := range v.MapKeys() {
			e := v.MapIndex(k)
			if e.Kind() == reflect.Ptr || e.Kind() == reflect.Interface {
				n += shrinkRows(e, rows, depth+1)
			}
		}
	}
	return n
}

// metadataBystander returns a value copy of the metadata of x (if x has one) and its hash: the copy shares
// its big numbers' storage with the receiver's, as every `*out.MetaData = *in.MetaData` in the library does.
func metadataBystander(x any) (*rlwe.MetaData, uint64) {
	var md *rlwe.MetaData
	if m, ok := x.(*rlwe.MetaData); ok {
		md = m
	} else if sc, ok := x.(*rlwe.Scale); ok {
		// a scale received by assignment from the receiver (the same sharing of big-number storage)
		by := rlwe.MetaData{}
		by.Scale = *sc
		return &by, bystanderHash(&by)
	} else {
		v := reflect.ValueOf(x)
		if v.Kind() == reflect.Ptr && !v.IsNil() && v.Elem().Kind() == reflect.Struct {
			if f := v.Elem().FieldByName("MetaData"); f.IsValid() && f.Kind() == reflect.Ptr && !f.IsNil() && f.CanInterface() {
				md, _ = f.Interface().(*rlwe.MetaData)
			}
		}
	}
	if md == nil {
		return nil, 0
	}
	by := *md
	return &by, bystanderHash(&by)
}

func bystanderHash(m *rlwe.MetaData) uint64 {
	h := core.HashString(m.Scale.Value.Text('p', 0))
	if m.Scale.Mod != nil {
		h = core.SplitMix64(h ^ core.HashString(m.Scale.Mod.Text(16)))
	}
	return core.SplitMix64(h ^ uint64(m.LogDimensions.Rows)<<8 ^ uint64(m.LogDimensions.Cols))
}

func minInt(a, b int) int {
	if a < b {
		return a
	}
	return b
}
