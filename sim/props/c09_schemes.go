package props

import (
	"fmt"
	"math/big"
	"math/bits"

	bgpoly "github.com/tuneinsight/lattigo/v6/circuits/bgv/polynomial"
	cklt "github.com/tuneinsight/lattigo/v6/circuits/ckks/lintrans"
	ckpoly "github.com/tuneinsight/lattigo/v6/circuits/ckks/polynomial"
	"github.com/tuneinsight/lattigo/v6/core/rgsw"
	"github.com/tuneinsight/lattigo/v6/core/rlwe"
	"github.com/tuneinsight/lattigo/v6/ring"
	"github.com/tuneinsight/lattigo/v6/schemes/bgv"
	"github.com/tuneinsight/lattigo/v6/schemes/ckks"
	"github.com/tuneinsight/lattigo/v6/utils/bignum"

	"verifsim/catalog"
	"verifsim/core"
)

func maxI(a, b int) int {
	if a > b {
		return a
	}
	return b
}

func degAdd(d0, d1 int) int { return maxI(d0, d1) }
func degMul(d0, d1 int) int {
	if d0+d1 > 2 {
		return 2
	}
	return d0 + d1
}
func degRelin(d0, d1 int) int {
	if d1 == 0 {
		return d0
	}
	return 1
}
func degSame(d0, _ int) int { return d0 }
func degOne(_, _ int) int   { return 1 }

var c09Rotations = []int{1, 2, 3, 4, 8, -1, -2}

// c09Sys bundles the long-lived objects of one side (system or twin): the scheme
// evaluator and the evaluators built on top of it. The scratch poisoner walks all of it.
type c09Sys struct {
	ev   any
	rg   *rgsw.Evaluator
	lt   *cklt.Evaluator
	poly *ckpoly.Evaluator
	bpol *bgpoly.Evaluator
}

// c09ArgModified is set by a catalog operation that finds one of its non-ciphertext arguments
// (a polynomial, a transformation) changed by the call; the history runner reports it.
var c09ArgModified string

// c09Aux carries the hash of a secondary output of a catalog operation (the other entries of a map of
// outputs): the history runner compares the system's with the twin's.
var c09Aux uint64

func hashBigPoly(p bignum.Polynomial) uint64 {
	h := uint64(len(p.Coeffs))*31 + uint64(p.Basis)
	for _, c := range p.Coeffs {
		if c == nil {
			h = core.SplitMix64(h ^ 0x6e696c)
			continue
		}
		h = core.SplitMix64(h ^ core.HashString(c[0].Text('p', 0)+"|"+c[1].Text('p', 0)))
	}
	return h
}

// --- integer scheme -----------------------------------------------------------------

type c09BGVCtx struct {
	params bgv.Parameters
	sk     *rlwe.SecretKey
	pk     *rlwe.PublicKey
	evk    *rlwe.MemEvaluationKeySet
	// evkLow: the same keys with a relinearization key generated one level below the maximum
	evkLow *rlwe.MemEvaluationKeySet
	hash   uint64
}

func hashKeySet(evk *rlwe.MemEvaluationKeySet) uint64 {
	b, err := evk.MarshalBinary()
	if err != nil {
		return 0
	}
	return core.HashString(string(b))
}

func c09BGV(ctx *core.RunCtx, scaleInvariant bool) *c09Scheme {
	ch := ctx.Ch
	var cc *c09BGVCtx
	for try := 0; ; try++ {
		spec := catalog.DrawRLWESpec(ch, catalog.SpecOpts{MinLogN: 5, MaxLogN: 7, MinQ: 3, MaxQ: 5, MinP: 1, MaxP: 2, MinBits: 40, MaxBits: 58})
		T := []uint64{65537, 786433, 12289}[ch.Draw("T", 3)]
		key := fmt.Sprintf("c09bgv/%s/T%d", spec.Key(), T)
		c := ctx.Cached(key, func(*core.Xoshiro) any {
			p, err := bgv.NewParametersFromLiteral(bgv.ParametersLiteral{LogN: spec.LogN, LogQ: spec.LogQ, LogP: spec.LogP, PlaintextModulus: T})
			if err != nil {
				return err
			}
			kgen := rlwe.NewKeyGenerator(p)
			sk, pk := kgen.GenKeyPairNew()
			galEls := p.GaloisElements(c09Rotations)
			galEls = append(galEls, p.GaloisElementForRowRotation())
			galEls = append(galEls, p.GaloisElementsForInnerSum(1, 4)...)
			galEls = append(galEls, p.GaloisElementsForInnerSum(2, 4)...)
			gks := kgen.GenGaloisKeysNew(galEls, sk)
			evk := rlwe.NewMemEvaluationKeySet(kgen.GenRelinearizationKeyNew(sk), gks...)
			lowQ := p.MaxLevel() - 1
			evkLow := rlwe.NewMemEvaluationKeySet(kgen.GenRelinearizationKeyNew(sk, rlwe.EvaluationKeyParameters{LevelQ: &lowQ}), gks...)
			return &c09BGVCtx{params: p, sk: sk, pk: pk, evk: evk, evkLow: evkLow, hash: hashKeySet(evk)}
		})
		if x, ok := c.(*c09BGVCtx); ok {
			cc = x
			ctx.Event("config bgv %s T=%d scale-invariant=%v", spec, T, scaleInvariant)
			break
		}
		if try > 20 {
			ctx.Harness("no bgv parameter set: %v", c)
		}
	}
	c09LastBGV = cc
	bp := cc.params
	T := bp.PlaintextModulus()
	enc := bgv.NewEncoder(bp)
	encr := bgv.NewEncryptor(bp, cc.pk)
	name := "bgv"
	if scaleInvariant {
		name = "bfv"
	}
	sc := &c09Scheme{name: name, params: bp.Parameters}
	sc.newEval = func() any {
		e := bgv.NewEvaluator(bp, cc.evk, scaleInvariant)
		return &c09Sys{ev: e, rg: rgsw.NewEvaluator(bp.Parameters, cc.evk), bpol: bgpoly.NewEvaluator(bp, e)}
	}
	sc.newCt = func(deg, level int) *rlwe.Ciphertext { return bgv.NewCiphertext(bp, deg, level) }
	sc.keyHash = func() uint64 { return hashKeySet(cc.evk) }
	sc.newScale = func(g *core.Xoshiro) rlwe.Scale { return bp.NewScale(1 + g.Next()%1000) }
	// rgsw ciphertexts for the external product (read-only inputs)
	rgswEnc := rgsw.NewEncryptor(bp.Parameters, cc.sk)
	var rgswPool []*rgsw.Ciphertext
	rgswCt := func(g *core.Xoshiro) *rgsw.Ciphertext {
		// at the maximum level, or (second entry of the pool) one level below: the product is then defined at
		// that level
		lv := bp.MaxLevel()
		if len(rgswPool) == 1 && lv > 0 {
			lv--
		}
		pt := rlwe.NewPlaintext(bp.Parameters, lv)
		pt.IsNTT = true
		catalog.FillPoly(bp.RingQ().AtLevel(lv), pt.Value, g)
		c := rgsw.NewCiphertext(bp.Parameters, lv, bp.MaxLevelP(), 0)
		if err := rgswEnc.Encrypt(pt, c); err != nil {
			ctx.Harness("rgsw encrypt: %v", err)
		}
		return c
	}
	randVec := func(g *core.Xoshiro) []uint64 {
		v := make([]uint64, bp.MaxSlots())
		for i := range v {
			v[i] = g.Next() % T
		}
		return v
	}
	sc.fresh = func(g *core.Xoshiro, level int) *rlwe.Ciphertext {
		pt := bgv.NewPlaintext(bp, level)
		if g.Next()%3 == 0 {
			pt.Scale = bp.NewScale(2 + g.Next()%100)
		}
		if err := enc.Encode(randVec(g), pt); err != nil {
			ctx.Harness("encode: %v", err)
		}
		ct, err := encr.EncryptNew(pt)
		if err != nil {
			ctx.Harness("encrypt: %v", err)
		}
		return ct
	}
	sc.gen = func(g *core.Xoshiro, kind, level int, of *rlwe.Ciphertext) any {
		switch kind {
		case vRGSW:
			if len(rgswPool) < 2 {
				rgswPool = append(rgswPool, rgswCt(g))
			}
			return rgswPool[int(g.Next()%uint64(len(rgswPool)))]
		case vPt:
			pt := bgv.NewPlaintext(bp, level)
			if g.Next()%2 == 0 {
				pt.Scale = of.Scale
			} else {
				pt.Scale = bp.NewScale(1 + g.Next()%1000)
			}
			if err := enc.Encode(randVec(g), pt); err != nil {
				ctx.Harness("encode: %v", err)
			}
			return pt
		case vVec:
			return randVec(g)
		case vU64:
			return g.Next() % (4 * T)
		case vI64:
			return int64(g.Next()%(2*T)) - int64(T)
		case vInt:
			return int(g.Next()%(2*T)) - int(T)
		default:
			// big integers below and far above T, negative too; one in three is already reduced (in [0, T),
			// either half: where a reduction or a copy made for it has nothing to do)
			if g.Next()%3 == 0 {
				return new(big.Int).SetUint64(g.Next() % T)
			}
			b := new(big.Int).SetUint64(g.Next())
			if g.Next()%2 == 0 {
				b.Mul(b, new(big.Int).SetUint64(g.Next()))
			}
			if g.Next()%2 == 0 {
				b.Neg(b)
			}
			return b
		}
	}
	ev := func(x any) *bgv.Evaluator { return x.(*c09Sys).ev.(*bgv.Evaluator) }
	scal := []int{vCt, vPt, vVec, vU64, vI64, vInt, vBig}
	slotsA, slotsB, slotsC := []int{}, []int{}, []int{}
	for i := 0; i < bp.MaxSlots(); i++ {
		switch {
		case i%2 == 0:
			slotsA = append(slotsA, i)
		case i%4 == 1:
			slotsB = append(slotsB, i)
		default:
			slotsC = append(slotsC, i)
		}
	}
	pvA, errA := bgpoly.NewPolynomialVector([][]uint64{{1, 2, 3, 4}, {5, 0, 7, 1}}, map[int][]int{0: slotsA, 1: slotsB})
	pvB, errB := bgpoly.NewPolynomialVector([][]uint64{{2, 0, 1, 9}}, map[int][]int{0: slotsC})
	if errA != nil || errB != nil {
		ctx.Harness("polynomial vectors: %v %v", errA, errB)
	}
	bgvPolys := []any{bgpoly.NewPolynomial([]uint64{3, 1, 4, 1}), pvA, pvB}

	sc.ops = []c09Op{
		{name: "Add", op1: scal, deg: degAdd, call: func(e any, a *rlwe.Ciphertext, b any, k int, o *rlwe.Ciphertext) error { return ev(e).Add(a, b, o) },
			callNew: func(e any, a *rlwe.Ciphertext, b any, k int) (*rlwe.Ciphertext, error) { return ev(e).AddNew(a, b) }},
		{name: "Sub", op1: scal, deg: degAdd, call: func(e any, a *rlwe.Ciphertext, b any, k int, o *rlwe.Ciphertext) error { return ev(e).Sub(a, b, o) },
			callNew: func(e any, a *rlwe.Ciphertext, b any, k int) (*rlwe.Ciphertext, error) { return ev(e).SubNew(a, b) }},
		{name: "Mul", op1: scal, deg: degMul, call: func(e any, a *rlwe.Ciphertext, b any, k int, o *rlwe.Ciphertext) error { return ev(e).Mul(a, b, o) },
			callNew: func(e any, a *rlwe.Ciphertext, b any, k int) (*rlwe.Ciphertext, error) { return ev(e).MulNew(a, b) }},
		{name: "MulRelin", op1: scal, deg: degRelin, call: func(e any, a *rlwe.Ciphertext, b any, k int, o *rlwe.Ciphertext) error {
			return ev(e).MulRelin(a, b, o)
		}, callNew: func(e any, a *rlwe.Ciphertext, b any, k int) (*rlwe.Ciphertext, error) {
			return ev(e).MulRelinNew(a, b)
		}},
		{name: "MulRelin(relinearization key of lower level)", op1: []int{vCt}, deg: degRelin, call: func(e any, a *rlwe.Ciphertext, b any, k int, o *rlwe.Ciphertext) error {
			return ev(e).WithKey(cc.evkLow).MulRelin(a, b, o)
		}},
		{name: "MulRelinThenAdd(relinearization key of lower level)", op1: []int{vCt}, accum: true, deg: degRelin, call: func(e any, a *rlwe.Ciphertext, b any, k int, o *rlwe.Ciphertext) error {
			return ev(e).WithKey(cc.evkLow).MulRelinThenAdd(a, b, o)
		}},
		{name: "MulScaleInvariant", op1: []int{vCt, vPt, vVec, vU64}, deg: degMul, call: func(e any, a *rlwe.Ciphertext, b any, k int, o *rlwe.Ciphertext) error {
			return ev(e).MulScaleInvariant(a, b, o)
		}, callNew: func(e any, a *rlwe.Ciphertext, b any, k int) (*rlwe.Ciphertext, error) {
			return ev(e).MulScaleInvariantNew(a, b)
		}},
		{name: "MulRelinScaleInvariant", op1: []int{vCt, vPt, vVec}, deg: degRelin, call: func(e any, a *rlwe.Ciphertext, b any, k int, o *rlwe.Ciphertext) error {
			return ev(e).MulRelinScaleInvariant(a, b, o)
		}, callNew: func(e any, a *rlwe.Ciphertext, b any, k int) (*rlwe.Ciphertext, error) {
			return ev(e).MulRelinScaleInvariantNew(a, b)
		}},
		{name: "MulThenAdd", op1: []int{vCt, vPt, vVec, vU64, vI64, vInt, vBig}, accum: true, deg: degMul, call: func(e any, a *rlwe.Ciphertext, b any, k int, o *rlwe.Ciphertext) error {
			return ev(e).MulThenAdd(a, b, o)
		}},
		{name: "MulRelinThenAdd", op1: []int{vCt, vPt, vVec}, accum: true, deg: degRelin, call: func(e any, a *rlwe.Ciphertext, b any, k int, o *rlwe.Ciphertext) error {
			return ev(e).MulRelinThenAdd(a, b, o)
		}},
		{name: "Rescale", op1: []int{vNone}, deg: degSame, call: func(e any, a *rlwe.Ciphertext, b any, k int, o *rlwe.Ciphertext) error { return ev(e).Rescale(a, o) }},
		{name: "Relinearize", op1: []int{vNone}, deg: degOne, call: func(e any, a *rlwe.Ciphertext, b any, k int, o *rlwe.Ciphertext) error {
			return ev(e).Relinearize(a, o)
		}, callNew: func(e any, a *rlwe.Ciphertext, b any, k int) (*rlwe.Ciphertext, error) {
			return ev(e).RelinearizeNew(a)
		}},
		{name: "RotateColumns", op1: []int{vNone}, ks: c09Rotations, deg: degOne, call: func(e any, a *rlwe.Ciphertext, b any, k int, o *rlwe.Ciphertext) error {
			return ev(e).RotateColumns(a, k, o)
		}, callNew: func(e any, a *rlwe.Ciphertext, b any, k int) (*rlwe.Ciphertext, error) {
			return ev(e).RotateColumnsNew(a, k)
		}},
		{name: "RotateColumns(0)", op1: []int{vNone}, needDeg1: true, deg: degOne, call: func(e any, a *rlwe.Ciphertext, b any, k int, o *rlwe.Ciphertext) error {
			// the identity automorphism: the receiver takes the value and the shape of the input
			return ev(e).RotateColumns(a, 0, o)
		}},
		{name: "RotateRows", op1: []int{vNone}, deg: degOne, call: func(e any, a *rlwe.Ciphertext, b any, k int, o *rlwe.Ciphertext) error { return ev(e).RotateRows(a, o) },
			callNew: func(e any, a *rlwe.Ciphertext, b any, k int) (*rlwe.Ciphertext, error) { return ev(e).RotateRowsNew(a) }},
		{name: "InnerSum", op1: []int{vNone}, ks: []int{1, 2}, deg: degSame, call: func(e any, a *rlwe.Ciphertext, b any, k int, o *rlwe.Ciphertext) error {
			return ev(e).InnerSum(a, k, 4, o)
		}},
		{name: "InnerSum(all slots, one batch)", op1: []int{vNone}, needDeg1: true, deg: degOne, call: func(e any, a *rlwe.Ciphertext, b any, k int, o *rlwe.Ciphertext) error {
			// the degenerate sum over a single batch of all slots: the value of the input
			return ev(e).InnerSum(a, bp.MaxSlots(), 1, o)
		}},
		{name: "DropLevel", op1: []int{vNone}, inplace: true, deg: degSame, call: func(e any, a *rlwe.Ciphertext, b any, k int, o *rlwe.Ciphertext) error {
			if a.Level() == 0 {
				return fmt.Errorf("level 0")
			}
			ev(e).DropLevel(a, 1)
			return nil
		}},
		{name: "rlwe.Automorphism", op1: []int{vNone}, ks: c09Rotations, needDeg1: true, deg: degOne, call: func(e any, a *rlwe.Ciphertext, b any, k int, o *rlwe.Ciphertext) error {
			return ev(e).Automorphism(a, bp.GaloisElement(k), o)
		}},
		{name: "rlwe.ApplyEvaluationKey", op1: []int{vNone}, needDeg1: true, deg: degOne, call: func(e any, a *rlwe.Ciphertext, b any, k int, o *rlwe.Ciphertext) error {
			return ev(e).ApplyEvaluationKey(a, &cc.evk.RelinearizationKey.EvaluationKey, o)
		}, callNew: func(e any, a *rlwe.Ciphertext, b any, k int) (*rlwe.Ciphertext, error) {
			return ev(e).ApplyEvaluationKeyNew(a, &cc.evk.RelinearizationKey.EvaluationKey)
		}},
		{name: "rgsw.ExternalProduct", op1: []int{vRGSW}, needDeg1: true, needMaxLevel: true, callerSetsMeta: true, deg: degOne, call: func(e any, a *rlwe.Ciphertext, b any, k int, o *rlwe.Ciphertext) error {
			e.(*c09Sys).rg.ExternalProduct(a, b.(*rgsw.Ciphertext), o)
			return nil
		}},
		{name: "polynomial.Evaluate", op1: []int{vNone}, ks: []int{0, 1, 2}, needDeg1: true, deg: degOne, call: func(e any, a *rlwe.Ciphertext, b any, k int, o *rlwe.Ciphertext) error {
			// k = 0: one polynomial on every slot; 1, 2: two polynomial vectors with different slot mappings
			// (slots outside the mapping evaluate to zero)
			res, err := e.(*c09Sys).bpol.Evaluate(a, bgvPolys[k], bp.DefaultScale())
			if err != nil {
				return err
			}
			o.Resize(res.Degree(), res.Level())
			for i := range res.Value {
				o.Value[i].CopyLvl(res.Level(), res.Value[i])
			}
			*o.MetaData = *res.MetaData
			return nil
		}},
		{name: "MatchScalesAndLevel", op1: []int{vNone}, accum: true, mutatesOp0: true, deg: degSame, call: func(e any, a *rlwe.Ciphertext, b any, k int, o *rlwe.Ciphertext) error {
			ev(e).MatchScalesAndLevel(a, o)
			return nil
		}},
	}
	if scaleInvariant {
		// Rescale is documented as a no-op for the scale-invariant evaluator
		var ops []c09Op
		for _, o := range sc.ops {
			if o.name != "Rescale" {
				ops = append(ops, o)
			}
		}
		sc.ops = ops
	}
	sc.extra = func(ctx *core.RunCtx, sc *c09Scheme, sys any, g *core.Xoshiro) bool {
		// encoder history: the evaluator's embedded encoder after the history (poisoned) against a new encoder
		e1 := ev(sys).Encoder
		core.PoisonScratch(e1, core.NewXoshiro(g.Next()))
		e2 := bgv.NewEncoder(bp)
		v := randVec(g)
		vh := hashOperand(v)
		{
			// the plaintext-ring entry points (used by the share conversions): values -> R_T -> values at a
			// drawn scale, R_T <-> R_Q; every argument but the designated output stays as it was
			rT := bp.RingT()
			scl := bp.NewScale(1 + g.Next()%1000)
			pT, pT2 := rT.NewPoly(), rT.NewPoly()
			rt1 := c09Exec(func() error { return e1.EncodeRingT(v, scl, pT) })
			rt2 := c09Exec(func() error { return e2.EncodeRingT(v, scl, pT2) })
			ctx.Count("oracle.encoder-twin", 1)
			if rt1.kind != rt2.kind || rt1.kind == 0 && hashPoly(1, pT) != hashPoly(1, pT2) {
				ctx.Fail("result", sc.name+"|Encoder.EncodeRingT|differs", "EncodeRingT on the used (poisoned) encoder differs from a new encoder (%s / %s)", rt1, rt2)
				return false
			}
			if hashOperand(v) != vh {
				ctx.Fail("inputs", sc.name+"|Encoder.EncodeRingT|values-modified", "EncodeRingT modified the caller's slice of values")
				return false
			}
			if rt1.kind == 0 {
				hT := hashPoly(1, pT)
				d1, d2 := make([]uint64, len(v)), make([]uint64, len(v))
				core.PoisonScratch(e1, core.NewXoshiro(g.Next()))
				t1 := c09Exec(func() error { return e1.DecodeRingT(pT, scl, d1) })
				t2 := c09Exec(func() error { return e2.DecodeRingT(pT2, scl, d2) })
				if hashPoly(1, pT) != hT {
					ctx.Fail("inputs", sc.name+"|Encoder.DecodeRingT|polynomial-modified", "DecodeRingT modified its input polynomial (scale %d)", scl.Uint64())
					return false
				}
				if t1.kind != t2.kind || hashOperand(d1) != hashOperand(d2) || t1.kind == 0 && hashOperand(d1) != vh {
					ctx.Fail("result", sc.name+"|Encoder.DecodeRingT|differs", "DecodeRingT on the used (poisoned) encoder differs from a new encoder or from the encoded values (%s / %s)", t1, t2)
					return false
				}
				lvl := int(g.Next() % uint64(bp.MaxLevel()+1))
				pQ, pQ2 := bp.RingQ().AtLevel(lvl).NewPoly(), bp.RingQ().AtLevel(lvl).NewPoly()
				up := g.Next()%2 == 0
				e1.RingT2Q(lvl, up, pT, pQ)
				e2.RingT2Q(lvl, up, pT2, pQ2)
				if hashPoly(1, pT) != hT {
					ctx.Fail("inputs", sc.name+"|Encoder.RingT2Q|polynomial-modified", "RingT2Q modified its input polynomial")
					return false
				}
				if ok, w := eqPoly(bp.RingQ().AtLevel(lvl), pQ, pQ2); !ok {
					ctx.Fail("result", sc.name+"|Encoder.RingT2Q|differs", "RingT2Q on the used encoder differs from a new encoder: %s", w)
					return false
				}
				hQ := hashPoly(1, pQ)
				back, back2 := rT.NewPoly(), rT.NewPoly()
				e1.RingQ2T(lvl, up, pQ, back)
				e2.RingQ2T(lvl, up, pQ2, back2)
				if hashPoly(1, pQ) != hQ {
					ctx.Fail("inputs", sc.name+"|Encoder.RingQ2T|polynomial-modified", "RingQ2T modified its input polynomial")
					return false
				}
				if hashPoly(1, back) != hashPoly(1, back2) {
					ctx.Fail("result", sc.name+"|Encoder.RingQ2T|differs", "RingQ2T on the used encoder differs from a new encoder")
					return false
				}
			}
		}
		level := int(g.Next() % uint64(bp.MaxLevel()+1))
		p1, p2 := bgv.NewPlaintext(bp, level), bgv.NewPlaintext(bp, level)
		s1 := c09Exec(func() error { return e1.Encode(v, p1) })
		s2 := c09Exec(func() error { return e2.Encode(v, p2) })
		ctx.Count("oracle.encoder-twin", 1)
		if s1.kind != s2.kind {
			ctx.Fail("status", sc.name+"|Encoder.Encode|status-differs", "Encode on the used (poisoned) encoder -> %s ; on a new encoder -> %s", s1, s2)
			return false
		}
		if hashOperand(v) != vh {
			ctx.Fail("inputs", sc.name+"|Encoder.Encode|values-modified", "Encode modified the caller's slice of values")
			return false
		}
		if s1.kind == 0 {
			if ok, w := eqPoly(bp.RingQ().AtLevel(level), p1.Value, p2.Value); !ok {
				ctx.Fail("result", sc.name+"|Encoder.Encode|differs", "Encode on a used encoder with poisoned buffers differs from a new encoder: %s", w)
				return false
			}
			d1, d2 := make([]uint64, len(v)), make([]uint64, len(v))
			ph := hashOperand(p1)
			core.PoisonScratch(e1, core.NewXoshiro(g.Next()))
			t1 := c09Exec(func() error { return e1.Decode(p1, d1) })
			t2 := c09Exec(func() error { return e2.Decode(p2, d2) })
			if t1.kind != t2.kind || hashOperand(d1) != hashOperand(d2) {
				ctx.Fail("result", sc.name+"|Encoder.Decode|differs", "Decode on a used encoder with poisoned buffers differs from a new encoder (%s / %s)", t1, t2)
				return false
			}
			if hashOperand(p1) != ph {
				ctx.Fail("inputs", sc.name+"|Encoder.Decode|plaintext-modified", "Decode modified its input plaintext")
				return false
			}
		}
		// both slice types, batched (slots) and not (coefficients), shorter than the capacity, into a plaintext that
		// held something else before: equal to a new encoder writing into a new plaintext
		for rep := 0; rep < 2; rep++ {
			batched := g.Next()%2 == 0
			n := 1 + int(g.Next()%uint64(bp.N()))
			if g.Next()%4 == 0 {
				n = bp.N()
			}
			var vals any
			if g.Next()%2 == 0 {
				u := make([]uint64, n)
				for i := range u {
					u[i] = g.Next() % bp.PlaintextModulus()
				}
				vals = u
			} else {
				w := make([]int64, n)
				for i := range w {
					w[i] = int64(g.Next()%bp.PlaintextModulus()) - int64(bp.PlaintextModulus()/2)
				}
				vals = w
			}
			lvl := int(g.Next() % uint64(bp.MaxLevel()+1))
			q1, q2 := bgv.NewPlaintext(bp, lvl), bgv.NewPlaintext(bp, lvl)
			q1.IsBatched, q2.IsBatched = batched, batched
			if g.Next()%2 == 0 {
				sc1 := bp.NewScale(1 + g.Next()%1000)
				q1.Scale, q2.Scale = sc1, sc1
			}
			catalog.FillPoly(bp.RingQ().AtLevel(lvl), q1.Value, g) // previous content
			core.PoisonScratch(e1, core.NewXoshiro(g.Next()))
			u1 := c09Exec(func() error { return e1.Encode(vals, q1) })
			u2 := c09Exec(func() error { return e2.Encode(vals, q2) })
			ctx.Count("oracle.encoder-twin", 1)
			what := fmt.Sprintf("Encode(%T of %d values, batched=%v, level %d) into a plaintext with previous content", vals, n, batched, lvl)
			if u1.kind != u2.kind {
				ctx.Fail("status", sc.name+"|Encoder.Encode|status-differs", "%s -> %s ; a new encoder into a new plaintext -> %s", what, u1, u2)
				return false
			}
			if u1.kind == 0 {
				if ok, w := eqPoly(bp.RingQ().AtLevel(lvl), q1.Value, q2.Value); !ok {
					ctx.Fail("result", sc.name+"|Encoder.Encode|reused-plaintext-differs", "%s differs from a new encoder writing into a new plaintext: %s", what, w)
					return false
				}
				// and back, into receivers of the same length
				var r1, r2 any
				if _, ok := vals.([]uint64); ok {
					r1, r2 = make([]uint64, n), make([]uint64, n)
				} else {
					r1, r2 = make([]int64, n), make([]int64, n)
				}
				core.PoisonScratch(e1, core.NewXoshiro(g.Next()))
				t1 := c09Exec(func() error { return e1.Decode(q1, r1) })
				t2 := c09Exec(func() error { return e2.Decode(q2, r2) })
				if t1.kind != t2.kind || t1.kind == 0 && fmt.Sprint(r1) != fmt.Sprint(r2) {
					ctx.Fail("result", sc.name+"|Encoder.Decode|differs", "Decode(%T of %d values, batched=%v) on a used encoder with poisoned buffers differs from a new encoder (%s / %s)", r1, n, batched, t1, t2)
					return false
				}
			}
		}
		// encryptor / decryptor: inputs intact
		pt := bgv.NewPlaintext(bp, level)
		_ = enc.Encode(v, pt)
		ph := hashOperand(pt)
		ct, err := encr.EncryptNew(pt)
		if err != nil {
			ctx.Harness("encrypt: %v", err)
		}
		if hashOperand(pt) != ph {
			ctx.Fail("inputs", sc.name+"|Encryptor.Encrypt|plaintext-modified", "Encrypt modified its plaintext")
			return false
		}
		// encrypting into a reused ciphertext (other degree, higher level, arbitrary content and metadata)
		{
			dirty := bgv.NewCiphertext(bp, 1+int(g.Next()%2), level+int(g.Next()%uint64(bp.MaxLevel()-level+1)))
			for i := range dirty.Value {
				catalog.FillPoly(bp.RingQ().AtLevel(dirty.Level()), dirty.Value[i], g)
			}
			dirty.Scale = bp.NewScale(1 + g.Next()%1000)
			st := c09Exec(func() error { return encr.Encrypt(pt, dirty) })
			ctx.Count("oracle.encrypt-into-reused-output", 1)
			if st.kind == 2 {
				ctx.Fail("status", sc.name+"|Encryptor.Encrypt|dirty-output-panic", "Encrypt into a reused ciphertext of degree %d panicked: %s", dirty.Degree(), st.msg)
				return false
			}
			if st.kind == 0 {
				got := make([]uint64, len(v))
				err := enc.Decode(bgv.NewDecryptor(bp, cc.sk).DecryptNew(dirty), got)
				if err != nil || hashOperand(got) != hashOperand(v) {
					ctx.Fail("result", sc.name+"|Encryptor.Encrypt|dirty-output", "encrypting into a reused ciphertext (degree %d before the call) does not give an encryption of the plaintext (decode err=%v)", len(dirty.Value)-1, err)
					return false
				}
			}
		}
		// the same for an encryption of zero, under the public key and under the secret key
		for which, ez := range []*rlwe.Encryptor{encr, bgv.NewEncryptor(bp, cc.sk)} {
			dirty := bgv.NewCiphertext(bp, 1+int(g.Next()%2), level)
			for i := range dirty.Value {
				catalog.FillPoly(bp.RingQ().AtLevel(level), dirty.Value[i], g)
			}
			st := c09Exec(func() error { return ez.EncryptZero(dirty) })
			ctx.Count("oracle.encrypt-into-reused-output", 1)
			if st.kind == 2 {
				ctx.Fail("status", sc.name+"|Encryptor.EncryptZero|dirty-output-panic", "EncryptZero into a reused ciphertext of degree %d panicked: %s", dirty.Degree(), st.msg)
				return false
			}
			if st.kind == 0 {
				got := make([]uint64, len(v))
				*dirty.MetaData = *pt.MetaData
				err := enc.Decode(bgv.NewDecryptor(bp, cc.sk).DecryptNew(dirty), got)
				zero := err == nil
				for _, x := range got {
					zero = zero && x == 0
				}
				if !zero {
					ctx.Fail("result", sc.name+"|Encryptor.EncryptZero|dirty-output", "EncryptZero (key kind %d) into a reused ciphertext that held a value of degree %d does not give an encryption of zero (decode err=%v)", which, len(dirty.Value)-1, err)
					return false
				}
			}
		}
		chh := hashCt(ct)
		dec := bgv.NewDecryptor(bp, cc.sk)
		// the receiver held another, possibly higher-level, plaintext before
		outLevel := level + int(g.Next()%uint64(bp.MaxLevel()-level+1))
		out := bgv.NewPlaintext(bp, outLevel)
		catalog.FillPoly(bp.RingQ().AtLevel(outLevel), out.Value, g)
		dec.Decrypt(ct, out)
		if out.Level() != level {
			ctx.Fail("result", sc.name+"|Decryptor.Decrypt|dirty-output-level", "decrypting a level-%d ciphertext into a plaintext that was at level %d leaves it at level %d", level, outLevel, out.Level())
			return false
		}
		if hashCt(ct) != chh {
			ctx.Fail("inputs", sc.name+"|Decryptor.Decrypt|ciphertext-modified", "Decrypt modified its ciphertext")
			return false
		}
		got := make([]uint64, len(v))
		if err := enc.Decode(out, got); err != nil || hashOperand(got) != hashOperand(v) {
			ctx.Fail("result", sc.name+"|Decryptor.Decrypt|dirty-output", "decrypting into a plaintext that held other content gives a wrong result (err=%v)", err)
			return false
		}
		// rgsw encryption of a plaintext in each of the four representations (NTT or not, Montgomery or not) on a
		// used encryptor: the plaintext is an input
		{
			pt := rlwe.NewPlaintext(bp.Parameters, bp.MaxLevel())
			catalog.FillPoly(bp.RingQ(), pt.Value, g)
			pt.IsNTT, pt.IsMontgomery = g.Next()%2 == 0, g.Next()%2 == 0
			ph := hashPoly(3, pt.Value)
			md := *pt.MetaData
			c := rgsw.NewCiphertext(bp.Parameters, bp.MaxLevel(), bp.MaxLevelP(), 0)
			st := c09Exec(func() error { return rgswEnc.Encrypt(pt, c) })
			ctx.Count("oracle.encryptor-input-intact", 1)
			if st.kind == 2 {
				ctx.Fail("status", sc.name+"|rgsw.Encryptor.Encrypt|panic", "rgsw Encrypt (plaintext NTT=%v Montgomery=%v) panicked: %s", md.IsNTT, md.IsMontgomery, st.msg)
				return false
			}
			if hashPoly(3, pt.Value) != ph || !md.Equal(pt.MetaData) {
				ctx.Fail("inputs", sc.name+"|rgsw.Encryptor.Encrypt|plaintext-modified", "rgsw Encrypt modified its plaintext (NTT=%v Montgomery=%v)", md.IsNTT, md.IsMontgomery)
				return false
			}
		}
		return true
	}
	return sc
}

// --- approximate scheme ---------------------------------------------------------------

type c09CKKSCtx struct {
	params ckks.Parameters
	sk     *rlwe.SecretKey
	pk     *rlwe.PublicKey
	evk    *rlwe.MemEvaluationKeySet
	evkLow *rlwe.MemEvaluationKeySet    // relinearization key one level below the maximum
	lts    [5]cklt.LinearTransformation // without and with baby-step giant-step; then the main diagonal alone, both ways; then baby-step giant-step without any diagonal in the first giant step
}

func c09CKKS(ctx *core.RunCtx) *c09Scheme {
	ch := ctx.Ch
	var cc *c09CKKSCtx
	for try := 0; ; try++ {
		spec := catalog.DrawRLWESpec(ch, catalog.SpecOpts{MinLogN: 5, MaxLogN: 7, MinQ: 3, MaxQ: 6, MinP: 1, MaxP: 2, MinBits: 40, MaxBits: 58, ConjInvOneIn: 4})
		logScale := 30 + ch.Draw("log-scale", 12)
		key := fmt.Sprintf("c09ckks/%s/S%d", spec.Key(), logScale)
		c := ctx.Cached(key, func(*core.Xoshiro) any {
			p, err := ckks.NewParametersFromLiteral(ckks.ParametersLiteral{LogN: spec.LogN, LogQ: spec.LogQ, LogP: spec.LogP, LogDefaultScale: logScale, RingType: spec.RingType})
			if err != nil {
				return err
			}
			kgen := rlwe.NewKeyGenerator(p)
			sk, pk := kgen.GenKeyPairNew()
			galEls := p.GaloisElements(c09Rotations)
			if p.RingType() == ring.Standard {
				galEls = append(galEls, p.GaloisElementForComplexConjugation())
			}
			galEls = append(galEls, p.GaloisElementsForInnerSum(1, 4)...)
			galEls = append(galEls, p.GaloisElementsForInnerSum(2, 4)...)
			// two small linear transformations (read-only) and the Galois keys they need
			slots := p.MaxSlots()
			diags := make(cklt.Diagonals[complex128])
			for _, d := range []int{-2, -1, 0, 1, 3} {
				diags[d] = make([]complex128, slots)
				for j := range diags[d] {
					diags[d][j] = complex(float64((j+d+7)%5)/8, float64((j*3+d+5)%3)/16)
				}
			}
			var lts [5]cklt.LinearTransformation
			main := cklt.Diagonals[complex128]{0: diags[0]}
			// diagonals in the upper half only: with baby steps and giant steps no index falls into the first
			// giant step
			far := make(cklt.Diagonals[complex128])
			for k, d := range []int{slots / 2, slots/2 + 1, slots - 1} {
				far[d] = diags[[]int{-2, 1, 3}[k]]
			}
			for i, bsgs := range []int{-1, 1, -1, 1, 1} {
				dd := diags
				if i >= 2 {
					// a slot-wise multiplication expressed as a transformation: only the main diagonal
					dd = main
				}
				if i == 4 {
					dd = far
				}
				ltp := cklt.Parameters{DiagonalsIndexList: dd.DiagonalsIndexList(), LevelQ: p.MaxLevel(), LevelP: p.MaxLevelP(), Scale: p.DefaultScale(),
					LogDimensions: p.LogMaxDimensions(), LogBabyStepGiantStepRatio: bsgs}
				lts[i] = cklt.NewTransformation(p, ltp)
				if err := cklt.Encode(ckks.NewEncoder(p), dd, lts[i]); err != nil {
					return err
				}
				galEls = append(galEls, lts[i].GaloisElements(p)...)
			}
			// Average over the quarter-size batches: rotations by slots/4 and slots/2
			galEls = append(galEls, p.GaloisElementsForInnerSum(slots/4, 4)...)
			gks := kgen.GenGaloisKeysNew(galEls, sk)
			evk := rlwe.NewMemEvaluationKeySet(kgen.GenRelinearizationKeyNew(sk), gks...)
			lowQ := p.MaxLevel() - 1
			evkLow := rlwe.NewMemEvaluationKeySet(kgen.GenRelinearizationKeyNew(sk, rlwe.EvaluationKeyParameters{LevelQ: &lowQ}), gks...)
			return &c09CKKSCtx{params: p, sk: sk, pk: pk, evk: evk, evkLow: evkLow, lts: lts}
		})
		if x, ok := c.(*c09CKKSCtx); ok {
			cc = x
			ctx.Event("config ckks %s logscale=%d", spec, logScale)
			break
		}
		if try > 20 {
			ctx.Harness("no ckks parameter set: %v", c)
		}
	}
	c09LastCKKS = cc
	cp := cc.params
	enc := ckks.NewEncoder(cp)
	encr := ckks.NewEncryptor(cp, cc.pk)
	sc := &c09Scheme{name: "ckks", params: cp.Parameters}
	sc.newEval = func() any {
		e := ckks.NewEvaluator(cp, cc.evk)
		return &c09Sys{ev: e, rg: rgsw.NewEvaluator(cp.Parameters, cc.evk), lt: cklt.NewEvaluator(e), poly: ckpoly.NewEvaluator(cp, e)}
	}
	sc.newCt = func(deg, level int) *rlwe.Ciphertext { return ckks.NewCiphertext(cp, deg, level) }
	sc.keyHash = func() uint64 { return hashKeySet(cc.evk) }
	sc.newScale = func(g *core.Xoshiro) rlwe.Scale { return rlwe.NewScale(float64(1 + g.Next()%(1<<40))) }
	rf := func(g *core.Xoshiro) float64 { return float64(int64(g.Next()>>11))/float64(1<<52) - 1 }
	randVec := func(g *core.Xoshiro) []complex128 {
		v := make([]complex128, cp.MaxSlots())
		for i := range v {
			v[i] = complex(rf(g), rf(g))
		}
		return v
	}
	// one value in four is sparsely packed (fewer slots than the ring offers): operands of different dimensions meet
	sparse := func(g *core.Xoshiro, pt *rlwe.Plaintext) []complex128 {
		v := randVec(g)
		if g.Next()%4 == 0 && cp.LogMaxSlots() > 2 {
			pt.LogDimensions.Cols = cp.LogMaxSlots() - 1 - int(g.Next()%2)
			v = v[:1<<pt.LogDimensions.Cols]
			ctx.Count("probe.sparsely-packed-operand", 1)
		}
		return v
	}
	sc.fresh = func(g *core.Xoshiro, level int) *rlwe.Ciphertext {
		pt := ckks.NewPlaintext(cp, level)
		if err := enc.Encode(sparse(g, pt), pt); err != nil {
			ctx.Harness("encode: %v", err)
		}
		ct, err := encr.EncryptNew(pt)
		if err != nil {
			ctx.Harness("encrypt: %v", err)
		}
		return ct
	}
	sc.gen = func(g *core.Xoshiro, kind, level int, of *rlwe.Ciphertext) any {
		switch kind {
		case vPt:
			pt := ckks.NewPlaintext(cp, level)
			if g.Next()%2 == 0 {
				pt.Scale = of.Scale
			}
			if err := enc.Encode(sparse(g, pt), pt); err != nil {
				ctx.Harness("encode: %v", err)
			}
			return pt
		case vVecC:
			return randVec(g)
		case vVec:
			v := make([]float64, cp.MaxSlots())
			for i := range v {
				v[i] = rf(g)
			}
			return v
		case vC128:
			return complex(rf(g)*3, rf(g)*3)
		case vF64:
			return rf(g) * 5
		case vInt:
			return int(g.Next()%9) - 4
		case vU64:
			return g.Next() % 7
		case vBig:
			return new(big.Int).SetInt64(int64(g.Next()%11) - 5)
		default:
			// big-number scalars at the precision of the encoding (where a conversion has nothing to do), at the
			// default precision of the type, and above; real or complex
			prec := []uint{cp.EncodingPrecision(), 53, 128, 64}[g.Next()%4]
			if g.Next()%3 == 0 {
				return &bignum.Complex{new(big.Float).SetPrec(prec).SetFloat64(rf(g) * 2), new(big.Float).SetPrec(prec).SetFloat64(rf(g))}
			}
			return new(big.Float).SetPrec(prec).SetFloat64(rf(g) * 2)
		}
	}
	ev := func(x any) *ckks.Evaluator { return x.(*c09Sys).ev.(*ckks.Evaluator) }
	scal := []int{vCt, vPt, vVecC, vVec, vC128, vF64, vInt, vU64, vBig, vBigF}
	pol3 := bignum.NewPolynomial(bignum.Monomial, []float64{0.25, 0.5, -0.125, 0.0625}, nil)
	polCheb := bignum.NewPolynomial(bignum.Chebyshev, []float64{0.1, 0.4, 0, -0.2, 0, 0.05}, [2]float64{-1, 1})
	// degree 15 with one absent (nil) coefficient, given by the caller as coefficient pointers
	c15 := make([]*bignum.Complex, 16)
	for i := range c15 {
		if i == 3 {
			continue // absent: means zero
		}
		c15[i] = &bignum.Complex{new(big.Float).SetPrec(128).SetFloat64(0.5 / float64(i+2)), new(big.Float).SetPrec(128)}
	}
	polCheb15 := bignum.NewPolynomial(bignum.Chebyshev, c15, [2]float64{-1, 1})
	var cslA, cslB, cslC []int
	for i := 0; i < cp.MaxSlots(); i++ {
		switch {
		case i%2 == 0:
			cslA = append(cslA, i)
		case i%4 == 1:
			cslB = append(cslB, i)
		default:
			cslC = append(cslC, i)
		}
	}
	polB := bignum.NewPolynomial(bignum.Monomial, []float64{-0.5, 0.25, 0.125, 0.5}, nil)
	cpvA, cerrA := ckpoly.NewPolynomialVector([]bignum.Polynomial{pol3, polB}, map[int][]int{0: cslA, 1: cslB})
	cpvB, cerrB := ckpoly.NewPolynomialVector([]bignum.Polynomial{polB}, map[int][]int{0: cslC})
	if cerrA != nil || cerrB != nil {
		ctx.Harness("polynomial vectors: %v %v", cerrA, cerrB)
	}
	ckksPolys := []any{pol3, polCheb, cpvA, cpvB, polCheb15}
	sc.ops = []c09Op{
		{name: "Add", op1: scal, deg: degAdd, call: func(e any, a *rlwe.Ciphertext, b any, k int, o *rlwe.Ciphertext) error { return ev(e).Add(a, b, o) },
			callNew: func(e any, a *rlwe.Ciphertext, b any, k int) (*rlwe.Ciphertext, error) { return ev(e).AddNew(a, b) }},
		{name: "Sub", op1: scal, deg: degAdd, call: func(e any, a *rlwe.Ciphertext, b any, k int, o *rlwe.Ciphertext) error { return ev(e).Sub(a, b, o) },
			callNew: func(e any, a *rlwe.Ciphertext, b any, k int) (*rlwe.Ciphertext, error) { return ev(e).SubNew(a, b) }},
		{name: "Mul", op1: scal, deg: degMul, call: func(e any, a *rlwe.Ciphertext, b any, k int, o *rlwe.Ciphertext) error { return ev(e).Mul(a, b, o) },
			callNew: func(e any, a *rlwe.Ciphertext, b any, k int) (*rlwe.Ciphertext, error) { return ev(e).MulNew(a, b) }},
		{name: "MulRelin", op1: scal, deg: degRelin, call: func(e any, a *rlwe.Ciphertext, b any, k int, o *rlwe.Ciphertext) error {
			return ev(e).MulRelin(a, b, o)
		}, callNew: func(e any, a *rlwe.Ciphertext, b any, k int) (*rlwe.Ciphertext, error) {
			return ev(e).MulRelinNew(a, b)
		}},
		{name: "MulRelin(relinearization key of lower level)", op1: []int{vCt}, deg: degRelin, call: func(e any, a *rlwe.Ciphertext, b any, k int, o *rlwe.Ciphertext) error {
			return ev(e).WithKey(cc.evkLow).MulRelin(a, b, o)
		}},
		{name: "MulRelinThenAdd(relinearization key of lower level)", op1: []int{vCt}, accum: true, deg: degRelin, call: func(e any, a *rlwe.Ciphertext, b any, k int, o *rlwe.Ciphertext) error {
			return ev(e).WithKey(cc.evkLow).MulRelinThenAdd(a, b, o)
		}},
		{name: "MulThenAdd", op1: []int{vCt, vPt, vVecC, vC128, vF64, vInt}, accum: true, deg: degMul, call: func(e any, a *rlwe.Ciphertext, b any, k int, o *rlwe.Ciphertext) error {
			return ev(e).MulThenAdd(a, b, o)
		}},
		{name: "MulRelinThenAdd", op1: []int{vCt, vPt, vVecC}, accum: true, deg: degRelin, call: func(e any, a *rlwe.Ciphertext, b any, k int, o *rlwe.Ciphertext) error {
			return ev(e).MulRelinThenAdd(a, b, o)
		}},
		{name: "Rescale", op1: []int{vNone}, deg: degSame, call: func(e any, a *rlwe.Ciphertext, b any, k int, o *rlwe.Ciphertext) error { return ev(e).Rescale(a, o) }},
		{name: "Relinearize", op1: []int{vNone}, deg: degOne, call: func(e any, a *rlwe.Ciphertext, b any, k int, o *rlwe.Ciphertext) error {
			return ev(e).Relinearize(a, o)
		}, callNew: func(e any, a *rlwe.Ciphertext, b any, k int) (*rlwe.Ciphertext, error) {
			return ev(e).RelinearizeNew(a)
		}},
		{name: "Rotate", op1: []int{vNone}, ks: c09Rotations, deg: degOne, call: func(e any, a *rlwe.Ciphertext, b any, k int, o *rlwe.Ciphertext) error { return ev(e).Rotate(a, k, o) },
			callNew: func(e any, a *rlwe.Ciphertext, b any, k int) (*rlwe.Ciphertext, error) { return ev(e).RotateNew(a, k) }},
		{name: "Rotate(0)", op1: []int{vNone}, needDeg1: true, deg: degOne, call: func(e any, a *rlwe.Ciphertext, b any, k int, o *rlwe.Ciphertext) error { return ev(e).Rotate(a, 0, o) }},
		{name: "Conjugate", op1: []int{vNone}, deg: degOne, call: func(e any, a *rlwe.Ciphertext, b any, k int, o *rlwe.Ciphertext) error { return ev(e).Conjugate(a, o) },
			callNew: func(e any, a *rlwe.Ciphertext, b any, k int) (*rlwe.Ciphertext, error) { return ev(e).ConjugateNew(a) }},
		{name: "ScaleUp", op1: []int{vNone}, ks: []int{2, 3, 8}, deg: degSame, call: func(e any, a *rlwe.Ciphertext, b any, k int, o *rlwe.Ciphertext) error {
			return ev(e).ScaleUp(a, rlwe.NewScale(k), o)
		}, callNew: func(e any, a *rlwe.Ciphertext, b any, k int) (*rlwe.Ciphertext, error) {
			return ev(e).ScaleUpNew(a, rlwe.NewScale(k))
		}},
		{name: "SetScale", op1: []int{vNone}, ks: []int{0, 1, 2}, inplace: true, deg: degSame, call: func(e any, a *rlwe.Ciphertext, b any, k int, o *rlwe.Ciphertext) error {
			// to the default scale, or to 9/8 or 5/4 of the current one (consumes a level)
			target := cp.DefaultScale()
			if k > 0 {
				target = a.Scale.Mul(rlwe.NewScale(1 + float64(k)/8))
			}
			return ev(e).SetScale(a, target)
		}},
		{name: "InnerSum", op1: []int{vNone}, ks: []int{1, 2}, deg: degSame, call: func(e any, a *rlwe.Ciphertext, b any, k int, o *rlwe.Ciphertext) error {
			return ev(e).InnerSum(a, k, 4, o)
		}},
		{name: "RotateHoisted", op1: []int{vNone}, ks: []int{0, 1}, needDeg1: true, deg: degOne, call: func(e any, a *rlwe.Ciphertext, b any, k int, o *rlwe.Ciphertext) error {
			// three rotations from one decomposition; the designated output receives the first (k = 0) or the last
			// (k = 1) of them, the others go to new ciphertexts whose content is reported through c09Aux
			rots := []int{1, 2, 3}
			outs := map[int]*rlwe.Ciphertext{}
			for _, r := range rots {
				outs[r] = ckks.NewCiphertext(cp, 1, a.Level())
			}
			outs[rots[2*k]] = o
			if err := ev(e).RotateHoisted(a, rots, outs); err != nil {
				return err
			}
			h := uint64(7)
			for _, r := range rots {
				if outs[r] != o {
					h = core.SplitMix64(h ^ canonHashCt(cp.Parameters, outs[r]))
				}
			}
			c09Aux = h
			return nil
		}},
		{name: "lintrans.Evaluate", op1: []int{vNone}, ks: []int{0, 1, 2, 3, 4}, needDeg1: true, deg: degOne, call: func(e any, a *rlwe.Ciphertext, b any, k int, o *rlwe.Ciphertext) error {
			return e.(*c09Sys).lt.Evaluate(a, cc.lts[k], o)
		}},
		{name: "lintrans.EvaluateMany", op1: []int{vNone}, ks: []int{0, 1, 2, 3}, needDeg1: true, deg: degOne, call: func(e any, a *rlwe.Ciphertext, b any, k int, o *rlwe.Ciphertext) error {
			// two transformations of one input (k: which pair, and whether the designated output is the first
			// or the second receiver); the other receiver is new and reported through c09Aux
			lts := []cklt.LinearTransformation{cc.lts[k&1], cc.lts[2+(k&1)]}
			outs := []*rlwe.Ciphertext{ckks.NewCiphertext(cp, 1, a.Level()), ckks.NewCiphertext(cp, 1, a.Level())}
			outs[k>>1] = o
			if err := e.(*c09Sys).lt.EvaluateMany(a, lts, outs); err != nil {
				return err
			}
			c09Aux = canonHashCt(cp.Parameters, outs[1-k>>1])
			return nil
		}},
		{name: "lintrans.EvaluateSequential", op1: []int{vNone}, ks: []int{0, 1, 2, 3}, needDeg1: true, deg: degOne, call: func(e any, a *rlwe.Ciphertext, b any, k int, o *rlwe.Ciphertext) error {
			// two transformations one after the other (each followed by a rescaling), in either order
			lts := []cklt.LinearTransformation{cc.lts[k&1], cc.lts[2+(k&1)]}
			if k>>1 == 1 {
				lts[0], lts[1] = lts[1], lts[0]
			}
			return e.(*c09Sys).lt.EvaluateSequential(a, lts, o)
		}, callNew: func(e any, a *rlwe.Ciphertext, b any, k int) (*rlwe.Ciphertext, error) {
			lts := []cklt.LinearTransformation{cc.lts[k&1], cc.lts[2+(k&1)]}
			if k>>1 == 1 {
				lts[0], lts[1] = lts[1], lts[0]
			}
			return e.(*c09Sys).lt.EvaluateSequentialNew(a, lts)
		}},
		{name: "Average", op1: []int{vNone}, needDeg1: true, deg: degOne, call: func(e any, a *rlwe.Ciphertext, b any, k int, o *rlwe.Ciphertext) error {
			return ev(e).Average(a, cp.LogMaxSlots()-2, o)
		}},
		{name: "polynomial.Evaluate", op1: []int{vNone}, ks: []int{0, 1, 2, 3, 4}, needDeg1: true, deg: degOne, call: func(e any, a *rlwe.Ciphertext, b any, k int, o *rlwe.Ciphertext) error {
			// k = 0, 1: one polynomial (monomial / Chebyshev basis); 2, 3: polynomial vectors with different slot
			// mappings; 4: a sparse Chebyshev polynomial of degree 15 given by the caller as coefficient pointers
			p := ckksPolys[k]
			h := hashBigPoly(polCheb15)
			res, err := e.(*c09Sys).poly.Evaluate(a, p, cp.DefaultScale())
			if hashBigPoly(polCheb15) != h {
				c09ArgModified = "the coefficients of the polynomial passed to polynomial.Evaluate"
			}
			if err != nil {
				return err
			}
			if k == 4 {
				ctx.Count("probe.sparse-chebyshev-degree-15-evaluated", 1)
			}
			o.Resize(res.Degree(), res.Level())
			for i := range res.Value {
				o.Value[i].CopyLvl(res.Level(), res.Value[i])
			}
			*o.MetaData = *res.MetaData
			return nil
		}},
		{name: "RescaleTo", op1: []int{vNone}, ks: []int{0, 1, 2}, deg: degSame, call: func(e any, a *rlwe.Ciphertext, b any, k int, o *rlwe.Ciphertext) error {
			// k = 0: the scale the input already has (no rescaling takes place); 1: one prime below; 2: as far as possible
			min := a.Scale
			switch k {
			case 1:
				min = a.Scale.Div(rlwe.NewScale(cp.Q()[a.Level()]))
			case 2:
				min = rlwe.NewScale(2)
			}
			return ev(e).RescaleTo(a, min, o)
		}},
		{name: "rlwe.Automorphism", op1: []int{vNone}, ks: c09Rotations, needDeg1: true, deg: degOne, call: func(e any, a *rlwe.Ciphertext, b any, k int, o *rlwe.Ciphertext) error {
			return ev(e).Automorphism(a, cp.GaloisElement(k), o)
		}},
		{name: "rlwe.ApplyEvaluationKey", op1: []int{vNone}, needDeg1: true, deg: degOne, call: func(e any, a *rlwe.Ciphertext, b any, k int, o *rlwe.Ciphertext) error {
			return ev(e).ApplyEvaluationKey(a, &cc.evk.RelinearizationKey.EvaluationKey, o)
		}, callNew: func(e any, a *rlwe.Ciphertext, b any, k int) (*rlwe.Ciphertext, error) {
			return ev(e).ApplyEvaluationKeyNew(a, &cc.evk.RelinearizationKey.EvaluationKey)
		}},
		{name: "ScaleUp", op1: []int{vNone}, ks: []int{2, 3, 1024}, deg: degSame, call: func(e any, a *rlwe.Ciphertext, b any, k int, o *rlwe.Ciphertext) error {
			return ev(e).ScaleUp(a, rlwe.NewScale(k), o)
		}},
		{name: "DropLevel", op1: []int{vNone}, inplace: true, deg: degSame, call: func(e any, a *rlwe.Ciphertext, b any, k int, o *rlwe.Ciphertext) error {
			if a.Level() == 0 {
				return fmt.Errorf("level 0")
			}
			ev(e).DropLevel(a, 1)
			return nil
		}},
	}
	sc.extra = func(ctx *core.RunCtx, sc *c09Scheme, sys any, g *core.Xoshiro) bool {
		e1 := ev(sys).Encoder
		core.PoisonScratch(e1, core.NewXoshiro(g.Next()))
		e2 := ckks.NewEncoder(cp)
		v := randVec(g)
		vh := hashOperand(v)
		level := int(g.Next() % uint64(cp.MaxLevel()+1))
		p1, p2 := ckks.NewPlaintext(cp, level), ckks.NewPlaintext(cp, level)
		if g.Next()%2 == 0 {
			p1.LogDimensions.Cols = cp.LogMaxSlots() - 1
			p2.LogDimensions.Cols = cp.LogMaxSlots() - 1
			v = v[:len(v)/2]
			vh = hashOperand(v)
		}
		s1 := c09Exec(func() error { return e1.Encode(v, p1) })
		s2 := c09Exec(func() error { return e2.Encode(v, p2) })
		ctx.Count("oracle.encoder-twin", 1)
		if s1.kind != s2.kind {
			ctx.Fail("status", "ckks|Encoder.Encode|status-differs", "Encode on the used (poisoned) encoder -> %s ; on a new encoder -> %s", s1, s2)
			return false
		}
		if hashOperand(v) != vh {
			ctx.Fail("inputs", "ckks|Encoder.Encode|values-modified", "Encode modified the caller's slice of values")
			return false
		}
		if s1.kind == 0 {
			if ok, w := eqPoly(cp.RingQ().AtLevel(level), p1.Value, p2.Value); !ok {
				ctx.Fail("result", "ckks|Encoder.Encode|differs", "Encode on a used encoder with poisoned buffers differs from a new encoder: %s", w)
				return false
			}
			// the caller's slice may be longer than the number of slots of the plaintext
			dl := len(v) + int(g.Next()%3)*len(v)/2
			d1, d2 := make([]complex128, dl), make([]complex128, dl)
			ph := hashOperand(p1)
			core.PoisonScratch(e1, core.NewXoshiro(g.Next()))
			t1 := c09Exec(func() error { return e1.Decode(p1, d1) })
			t2 := c09Exec(func() error { return e2.Decode(p2, d2) })
			if t1.kind != t2.kind || hashOperand(d1) != hashOperand(d2) {
				ctx.Fail("result", "ckks|Encoder.Decode|differs", "Decode on a used encoder with poisoned buffers differs from a new encoder (%s / %s)", t1, t2)
				return false
			}
			if hashOperand(p1) != ph {
				ctx.Fail("inputs", "ckks|Encoder.Decode|plaintext-modified", "Decode modified its input plaintext")
				return false
			}
		}
		// every accepted slice type, batched (slots) and not (coefficients), shorter than the capacity, into a
		// plaintext that held something else before: equal to a new encoder writing into a new plaintext
		for rep := 0; rep < 2; rep++ {
			batched := g.Next()%2 == 0
			maxLen := cp.MaxSlots()
			logCols := cp.LogMaxSlots()
			if batched && g.Next()%2 == 0 {
				// sparse packing
				logCols = int(g.Next() % uint64(cp.LogMaxSlots()+1))
				maxLen = 1 << logCols
			}
			coeffDomain := g.Next()%3 == 0 // the plaintext asks for an encoding outside the NTT domain
			if !batched {
				maxLen = cp.N()
			}
			n := 1 + int(g.Next()%uint64(maxLen))
			fl := make([]float64, n)
			for i := range fl {
				fl[i] = rf(g)
			}
			var vals any
			kind := int(g.Next() % 4)
			switch kind {
			case 0:
				vals = fl
			case 1:
				b := make([]*big.Float, n)
				for i := range b {
					b[i] = new(big.Float).SetPrec(128).SetFloat64(fl[i])
				}
				vals = b
			case 2:
				c := make([]complex128, n)
				for i := range c {
					c[i] = complex(fl[i], 0)
					if batched {
						c[i] = complex(fl[i], rf(g))
					}
				}
				vals = c
			default:
				c := make([]*bignum.Complex, n)
				for i := range c {
					im := 0.0
					if batched {
						im = rf(g)
					}
					c[i] = &bignum.Complex{new(big.Float).SetPrec(128).SetFloat64(fl[i]), new(big.Float).SetPrec(128).SetFloat64(im)}
				}
				vals = c
			}
			lvl := int(g.Next() % uint64(cp.MaxLevel()+1))
			q1, q2 := ckks.NewPlaintext(cp, lvl), ckks.NewPlaintext(cp, lvl)
			q1.IsBatched, q2.IsBatched = batched, batched
			q1.LogDimensions.Cols, q2.LogDimensions.Cols = logCols, logCols
			if coeffDomain {
				q1.IsNTT, q2.IsNTT = false, false
			}
			catalog.FillPoly(cp.RingQ().AtLevel(lvl), q1.Value, g) // previous content
			core.PoisonScratch(e1, core.NewXoshiro(g.Next()))
			u1 := c09Exec(func() error { return e1.Encode(vals, q1) })
			u2 := c09Exec(func() error { return e2.Encode(vals, q2) })
			ctx.Count("oracle.encoder-twin", 1)
			what := fmt.Sprintf("Encode(%T of %d values, batched=%v, 2^%d slots, NTT=%v) into a plaintext with previous content", vals, n, batched, logCols, !coeffDomain)
			if u1.kind != u2.kind {
				ctx.Fail("status", "ckks|Encoder.Encode|status-differs", "%s -> %s ; a new encoder into a new plaintext -> %s", what, u1, u2)
				return false
			}
			if u1.kind == 0 {
				if ok, w := eqPoly(cp.RingQ().AtLevel(lvl), q1.Value, q2.Value); !ok {
					ctx.Fail("result", "ckks|Encoder.Encode|reused-plaintext-differs", "%s differs from a new encoder writing into a new plaintext: %s", what, w)
					return false
				}
			}
		}
		// arbitrary-precision encoder: what a decoding handed to the caller (big numbers behind pointers, allocated by
		// the encoder where the receiver had none) is the caller's: a later call on the same encoder changes nothing
		// of it, and it equals what a new encoder returns
		{
			eb, et := ckks.NewEncoder(cp, 128), ckks.NewEncoder(cp, 128)
			mkVals := func() []*bignum.Complex {
				c := make([]*bignum.Complex, cp.MaxSlots())
				for i := range c {
					c[i] = &bignum.Complex{new(big.Float).SetPrec(128).SetFloat64(rf(g)), new(big.Float).SetPrec(128).SetFloat64(rf(g))}
				}
				return c
			}
			pa, pb := ckks.NewPlaintext(cp, cp.MaxLevel()), ckks.NewPlaintext(cp, cp.MaxLevel())
			if err := eb.Encode(mkVals(), pa); err != nil {
				ctx.Harness("ckks big-precision encode: %v", err)
			}
			if err := eb.Encode(mkVals(), pb); err != nil {
				ctx.Harness("ckks big-precision encode: %v", err)
			}
			text := func(x any) string {
				var sb []byte
				switch v := x.(type) {
				case []*bignum.Complex:
					for _, c := range v {
						sb = append(sb, c[0].Text('p', 0)...)
						sb = append(sb, '|')
						sb = append(sb, c[1].Text('p', 0)...)
						sb = append(sb, ';')
					}
				case []*big.Float:
					for _, c := range v {
						sb = append(sb, c.Text('p', 0)...)
						sb = append(sb, ';')
					}
				}
				return string(sb)
			}
			n := cp.MaxSlots()
			var r1, r2 any
			kind := int(g.Next() % 3)
			switch kind {
			case 0: // receiver without entries: the encoder allocates them
				r1, r2 = make([]*bignum.Complex, n), make([]*bignum.Complex, n)
			case 1: // entries present
				a, b := make([]*bignum.Complex, n), make([]*bignum.Complex, n)
				for i := range a {
					a[i], b[i] = bignum.NewComplex(), bignum.NewComplex()
				}
				r1, r2 = a, b
			default:
				r1, r2 = make([]*big.Float, n), make([]*big.Float, n)
			}
			d1 := c09Exec(func() error { return eb.Decode(pa, r1) })
			d2 := c09Exec(func() error { return et.Decode(pa, r2) })
			ctx.Count("oracle.encoder-twin", 1)
			if d1.kind != d2.kind || d1.kind == 0 && text(r1) != text(r2) {
				ctx.Fail("result", "ckks|Encoder(prec=128).Decode|differs", "Decode (%T, receiver kind %d) on a used arbitrary-precision encoder differs from a new encoder (%s / %s)", r1, kind, d1, d2)
				return false
			}
			if d1.kind == 0 {
				before := text(r1)
				var other any = make([]*bignum.Complex, n)
				if g.Next()%2 == 0 {
					_ = eb.Decode(pb, other)
				} else {
					_ = eb.Encode(mkVals(), ckks.NewPlaintext(cp, cp.MaxLevel()))
				}
				aliasCheck := func() bool {
					if text(r1) != before {
						ctx.Fail("inputs", "ckks|Encoder(prec=128).Decode|returned-values-alias-scratch", "the values that Decode returned in a %T (receiver kind %d) changed when the encoder was used again: they point into its buffers", r1, kind)
						return false
					}
					return true
				}
				if !aliasCheck() {
					return false
				}
				// DecodePublic (decoding with a rounding to a public precision) into a receiver longer than the slots:
				// the entries beyond the slots are not part of the result
				{
					ext := make([]*bignum.Complex, n+3)
					for i := range ext {
						ext[i] = &bignum.Complex{new(big.Float).SetPrec(128).SetInt64(int64(1000 + i)), new(big.Float).SetPrec(128).SetInt64(-7)}
					}
					tail := text(ext[n:])
					dp := c09Exec(func() error { return eb.DecodePublic(pa, ext, 20) })
					if dp.kind == 2 {
						ctx.Fail("status", "ckks|Encoder(prec=128).DecodePublic|panic", "DecodePublic into a receiver longer than the slots panicked: %s", dp.msg)
						return false
					}
					if dp.kind == 0 && text(ext[n:]) != tail {
						ctx.Fail("inputs", "ckks|Encoder(prec=128).DecodePublic|beyond-slots-modified", "DecodePublic into a receiver of %d entries for %d slots changed the entries beyond the slots", len(ext), n)
						return false
					}
				}
				if !aliasCheck() {
					return false
				}
			}
			// an encoding does not depend on what the encoder encoded or decoded before: every input kind, full and
			// short vectors, real inputs after complex ones (the imaginary parts of the working buffer)
			{
				m := n
				if g.Next()%2 == 0 {
					m = 1 + int(g.Next()%uint64(n))
				}
				var vals any
				ik := int(g.Next() % 4)
				switch ik {
				case 0:
					v := make([]*big.Float, m)
					for i := range v {
						if g.Next()%8 != 0 { // some entries absent: they stand for zero
							v[i] = new(big.Float).SetPrec(128).SetFloat64(rf(g))
						}
					}
					vals = v
				case 1:
					v := make([]float64, m)
					for i := range v {
						v[i] = rf(g)
					}
					vals = v
				case 2:
					v := make([]complex128, m)
					for i := range v {
						v[i] = complex(rf(g), rf(g))
					}
					vals = v
				default:
					vals = mkVals()[:m]
				}
				q1, q2 := ckks.NewPlaintext(cp, cp.MaxLevel()), ckks.NewPlaintext(cp, cp.MaxLevel())
				if cp.RingType() == ring.Standard && g.Next()%3 == 0 {
					ld := bits.Len(uint(m - 1)) // sparse packing
					q1.LogDimensions.Cols, q2.LogDimensions.Cols = ld, ld
				}
				if g.Next()%3 == 0 { // an encoding outside the NTT domain
					q1.IsNTT, q2.IsNTT = false, false
				}
				if g.Next()%2 == 0 { // the receiver held something else
					catalog.FillPoly(cp.RingQ(), q1.Value, g)
				}
				e1 := c09Exec(func() error { return eb.Encode(vals, q1) })
				e2 := c09Exec(func() error { return ckks.NewEncoder(cp, 128).Encode(vals, q2) })
				ctx.Count("oracle.encoder-twin", 1)
				if e1.kind != e2.kind {
					ctx.Fail("status", "ckks|Encoder(prec=128).Encode|status", "Encode(%T of %d values) on a used arbitrary-precision encoder: %s, on a new encoder: %s", vals, m, e1, e2)
					return false
				}
				if e1.kind == 0 {
					if ok, w := eqPoly(cp.RingQ(), q1.Value, q2.Value); !ok {
						ctx.Fail("result", "ckks|Encoder(prec=128).Encode|history", "Encode(%T of %d values, log-slots %d, NTT=%v) on an arbitrary-precision encoder that encoded and decoded before (into a plaintext that may have held another value) differs from a new encoder writing into a new plaintext: %s", vals, m, q1.LogDimensions.Cols, q1.IsNTT, w)
						return false
					}
				}
			}
		}
		return true
	}
	_ = ring.Standard
	return sc
}
