package props

import (
	"fmt"
	"reflect"

	"github.com/tuneinsight/lattigo/v6/core/rlwe"
	"github.com/tuneinsight/lattigo/v6/schemes/bgv"
	"github.com/tuneinsight/lattigo/v6/schemes/ckks"

	"verifsim/catalog"
	"verifsim/core"
)

// C10, parameters: a parameter set is handed around by value (every evaluator, encoder and protocol holds its own
// copy) and the copies share the rings. The program of this scenario is every exported accessor without arguments
// (found by reflection, so that a new accessor is covered the day it appears), plus the level views of the rings;
// the objects are value copies of one parameter set. The usual oracles apply: an accessor gives the same result on
// every copy and on a pristine parameter set built from the same literal, it changes nothing that another copy can
// reach (footprint oracle), and under the race binary the accessors run in parallel.

func c10AccessorSteps(ctx *core.RunCtx, sample any) []c10Step {
	var steps []c10Step
	t := reflect.TypeOf(sample)
	for i := 0; i < t.NumMethod(); i++ {
		m := t.Method(i)
		if m.Type.NumIn() != 1 || m.Type.NumOut() == 0 || m.Type.NumOut() > 2 {
			continue
		}
		name := m.Name
		steps = append(steps, c10Step{"Parameters." + name, false, func(obj any) (uint64, error) {
			out := reflect.ValueOf(obj).MethodByName(name).Call(nil)
			if len(out) == 2 {
				if e, ok := out[1].Interface().(error); ok && e != nil {
					return 0, e
				}
			}
			h := core.NewSweep().FootprintOf(out[0].Interface()).Hash
			// what an accessor hands out as a value (numbers, big numbers, slices and structures of them) is the
			// caller's: the caller overwrites it. If it was the parameters' own storage, the footprint of every copy
			// of the parameters changes, and the next accessor results with it.
			if c10ValueLike(out[0].Type(), 0) {
				r := reflect.New(out[0].Type()).Elem()
				r.Set(out[0])
				scrambleAll(r, core.NewXoshiro(h), 0)
			}
			return h, nil
		}})
	}
	if len(steps) < 10 {
		ctx.Harness("reflection found only %d accessors on %T", len(steps), sample)
	}
	return steps
}

func c10Parameters(ctx *core.RunCtx, g *core.Xoshiro) *c10World {
	ch := ctx.Ch
	kind := ch.Draw("parameters-kind", 3)
	var mk func() any
	var cp func(any) any
	var rl func(any) *rlwe.Parameters
	name := ""
	for try := 0; mk == nil; try++ {
		spec := catalog.DrawRLWESpec(ch, catalog.SpecOpts{MinLogN: 4, MaxLogN: 6, MinQ: 2, MaxQ: 4, MinP: 0, MaxP: 2, MinBits: 30, MaxBits: 58})
		switch kind {
		case 0:
			spec.NTT = ch.Bool("ntt-domain")
			if _, err := spec.Build(); err == nil {
				mk = func() any { p, _ := spec.Build(); return &p }
				cp = func(x any) any { q := *x.(*rlwe.Parameters); return &q }
				rl = func(x any) *rlwe.Parameters { return x.(*rlwe.Parameters) }
				name = "rlwe.Parameters " + spec.String()
			}
		case 1:
			lit := bgv.ParametersLiteral{LogN: spec.LogN, LogQ: spec.LogQ, LogP: spec.LogP, PlaintextModulus: []uint64{65537, 786433, 12289}[ch.Draw("T", 3)]}
			if _, err := bgv.NewParametersFromLiteral(lit); err == nil {
				mk = func() any { p, _ := bgv.NewParametersFromLiteral(lit); return &p }
				cp = func(x any) any { q := *x.(*bgv.Parameters); return &q }
				rl = func(x any) *rlwe.Parameters { return &x.(*bgv.Parameters).Parameters }
				name = fmt.Sprintf("bgv.Parameters %s T=%d", spec, lit.PlaintextModulus)
			}
		default:
			lit := ckks.ParametersLiteral{LogN: spec.LogN, LogQ: spec.LogQ, LogP: spec.LogP, LogDefaultScale: 20 + ch.Draw("log-scale", 20), RingType: spec.RingType}
			if _, err := ckks.NewParametersFromLiteral(lit); err == nil {
				mk = func() any { p, _ := ckks.NewParametersFromLiteral(lit); return &p }
				cp = func(x any) any { q := *x.(*ckks.Parameters); return &q }
				rl = func(x any) *rlwe.Parameters { return &x.(*ckks.Parameters).Parameters }
				name = fmt.Sprintf("ckks.Parameters %s scale=2^%d", spec, lit.LogDefaultScale)
			}
		}
		if try > 20 {
			ctx.Harness("no acceptable parameter set after 20 draws")
		}
	}
	ctx.Event("config %s", name)
	orig := mk()
	w := &c10World{name: "Parameters (accessors)", orig: orig, fresh: mk}
	w.copiers = []c10Copier{{"value copy", true, cp}}
	w.steps = c10AccessorSteps(ctx, orig)
	a := rl(orig).RingQ().NewPoly()
	catalog.FillPoly(rl(orig).RingQ(), a, g)
	w.steps = append(w.steps,
		c10Step{"Parameters.NewScale(7)", false, func(x any) (uint64, error) {
			// a scale made from the parameters' template is the caller's
			sc := rl(x).NewScale(uint64(7))
			h := core.NewSweep().FootprintOf(sc).Hash
			scrambleAll(reflect.ValueOf(&sc), core.NewXoshiro(h), 0)
			return h, nil
		}},
		c10Step{"RingQ.AtLevel views", false, func(x any) (uint64, error) {
			// the moduli of every level view, and a transform through the lowest one
			r := rl(x).RingQ()
			h := uint64(1)
			for l := 0; l <= r.MaxLevel(); l++ {
				h = core.SplitMix64(h ^ core.HashString(r.AtLevel(l).Modulus().Text(16)))
			}
			r0 := r.AtLevel(0)
			p := r0.NewPoly()
			r0.NTT(a, p)
			return core.SplitMix64(h ^ canonHashPoly(r0, 1, p)), nil
		}},
		c10Step{"RingQP.AtLevel views", false, func(x any) (uint64, error) {
			qp := rl(x).RingQP()
			h := uint64(2)
			for l := 0; l <= rl(x).MaxLevelQ(); l++ {
				v := qp.AtLevel(l, rl(x).MaxLevelP())
				h = core.SplitMix64(h ^ uint64(v.LevelQ())*7 ^ uint64(v.LevelP()+2)*13 ^ core.HashString(v.RingQ.Modulus().Text(16)))
				if v.RingP != nil {
					h = core.SplitMix64(h ^ core.HashString(v.RingP.Modulus().Text(16)))
				}
			}
			return h, nil
		}},
	)
	return w
}

// c10ValueLike: the type carries numbers only (no ring, no parameter set, no interface, no function).
func c10ValueLike(t reflect.Type, depth int) bool {
	if depth > 8 {
		return false
	}
	switch t.Kind() {
	case reflect.Bool, reflect.Int, reflect.Int8, reflect.Int16, reflect.Int32, reflect.Int64, reflect.Uint, reflect.Uint8, reflect.Uint16, reflect.Uint32,
		reflect.Uint64, reflect.Uintptr, reflect.Float32, reflect.Float64, reflect.Complex64, reflect.Complex128, reflect.String:
		return true
	case reflect.Ptr, reflect.Slice, reflect.Array:
		return c10ValueLike(t.Elem(), depth+1)
	case reflect.Map:
		return c10ValueLike(t.Key(), depth+1) && c10ValueLike(t.Elem(), depth+1)
	case reflect.Struct:
		switch t.Name() {
		case "Ring", "SubRing", "Parameters", "BasisExtender":
			return false
		}
		if t.PkgPath() == "math/big" {
			return true
		}
		for i := 0; i < t.NumField(); i++ {
			if !c10ValueLike(t.Field(i).Type, depth+1) {
				return false
			}
		}
		return true
	}
	return false
}
