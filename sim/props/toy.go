// Package props registers every workload.
package props

import (
	"verifsim/core"
	"verifsim/simsched"
)

// toy is a self-test workload for the driver itself: a tiny "system" with
// seeded defects selected by the environment of the selftest, exercising
// violation reporting, shrinking, fatal-process attribution and replay.
type toy struct{}

func (toy) ID() string           { return "T00" }
func (toy) Runs(tier string) int { return 200 }
func (toy) Describe() core.Description {
	return core.Description{Level: "exploration", Rule: "toy"}
}

var toyDepth func(n int) int

func (toy) Run(ctx *core.RunCtx) {
	n := ctx.Ch.Range("n", 1, 30)
	sum := 0
	for i := 0; i < n; i++ {
		v := ctx.Ch.Draw("v", 100)
		ctx.Event("step %d v=%d", i, v)
		sum += v
		if v == 77 {
			ctx.Count("fault.seventyseven", 1)
			ctx.Nontrivial = true
			if ctx.Tier == "toy-violation" {
				ctx.Fail("toy", "v77", "saw 77 at step %d", i)
			}
			if ctx.Tier == "toy-fatal" {
				toyDepth = func(k int) int { return toyDepth(k+1) + 1 }
				toyDepth(0)
			}
		}
	}
	ctx.Count("oracle.sum", 1)
}

// toyRace is the self-test of the scheduler + race oracle (race binary only).
type toyRace struct{}

func (toyRace) ID() string      { return "T01" }
func (toyRace) Runs(string) int { return 40 }
func (toyRace) Describe() core.Description {
	return core.Description{Level: "exploration", Rule: "toy"}
}

func (toyRace) Run(ctx *core.RunCtx) {
	shared := make([]uint64, 8)
	own := make([][]uint64, 3)
	var progs [][]simsched.Step
	for i := 0; i < 3; i++ {
		i := i
		own[i] = make([]uint64, 8)
		var steps []simsched.Step
		for k := 0; k < 4; k++ {
			k := k
			steps = append(steps, func() {
				own[i][k] = shared[k] + uint64(i) // read shared, write own: no conflict
				if ctx.Tier == "toy-race" && i > 0 && k == 2 {
					shared[5] = uint64(i) // two tasks write the same word
				}
			})
		}
		progs = append(progs, steps)
	}
	r := simsched.Run(ctx.Ch, progs)
	ctx.Event("order %v", r.Order)
	ctx.Count("oracle.sched", 1)
	ctx.Nontrivial = r.Switches > 0
}

func init() { core.Register(toy{}); core.Register(toyRace{}) }
