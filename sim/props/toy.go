// Package props registers every workload.
package props

import (
	"verifsim/core"
)

// toy is a self-test workload for the driver itself: a tiny "system" with
// seeded defects selected by the environment of the selftest, exercising
// violation reporting, shrinking, fatal-process attribution and replay.
type toy struct{}

func (toy) ID() string { return "T00" }
func (toy) Runs(tier string) int { return 200 }
func (toy) Describe() core.Description {
	return core.Description{Level: "exploration", Rule: "toy"}
}

var toyDepth func(n int) int

func (toy) Run(ctx *core.RunCtx) {
	n := ctx.Ch.Range("n", 1, 30)
	sum := 0
	for i := 0; i < n; i++ {
		v := ctx.Ch.Draw("v", 100)
		ctx.Event("step %d v=%d", i, v)
		sum += v
		if v == 77 {
			ctx.Count("fault.seventyseven", 1)
			ctx.Nontrivial = true
			if ctx.Tier == "toy-violation" {
				ctx.Fail("toy", "v77", "saw 77 at step %d", i)
			}
			if ctx.Tier == "toy-fatal" {
				toyDepth = func(k int) int { return toyDepth(k+1) + 1 }
				toyDepth(0)
			}
		}
	}
	ctx.Count("oracle.sum", 1)
}

func init() { core.Register(toy{}) }
