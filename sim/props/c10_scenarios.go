package props

import (
	"fmt"
	"math"
	"math/big"
	"reflect"
	"sort"

	"github.com/tuneinsight/lattigo/v6/circuits/ckks/bootstrapping"

	"github.com/tuneinsight/lattigo/v6/core/rgsw"
	"github.com/tuneinsight/lattigo/v6/core/rlwe"
	"github.com/tuneinsight/lattigo/v6/multiparty"
	"github.com/tuneinsight/lattigo/v6/multiparty/mpbgv"
	"github.com/tuneinsight/lattigo/v6/multiparty/mpckks"
	"github.com/tuneinsight/lattigo/v6/ring"
	"github.com/tuneinsight/lattigo/v6/schemes/bgv"
	"github.com/tuneinsight/lattigo/v6/schemes/ckks"
	"github.com/tuneinsight/lattigo/v6/utils/sampling"

	"verifsim/catalog"
	"verifsim/core"
)

var c10Scs []c10Scenario

func c10Scenarios() []c10Scenario {
	if c10Scs == nil {
		c10Scs = []c10Scenario{
			{name: "bgv.Evaluator", build: c10BGVEvaluator},
			{name: "ckks.Evaluator", build: c10CKKSEvaluator},
			{name: "bgv.Encoder", build: c10BGVEncoder},
			{name: "ckks.Encoder", build: c10CKKSEncoder},
			{name: "rlwe.Encryptor+Decryptor", build: c10EncDec},
			{name: "rlwe.Evaluator+late-keys", build: c10LateKeys},
			{name: "ring.Ring.AtLevel+BasisExtender", build: c10Ring},
			{name: "multiparty.keygen", build: c10MPKeygen},
			{name: "multiparty.keyswitch", build: c10MPKeySwitch},
			{name: "mpbgv.protocols", build: c10MPBGV},
			{name: "mpckks.protocols", build: c10MPCKKS},
			{name: "mpbgv.MaskedTransform(other output parameters)", build: c10MPBGVSwitch},
			{name: "rgsw", build: c10RGSW},
			{name: "rlwe.RingPackingEvaluator", build: c10RingPacking},
			{name: "rlwe.KeyGenerator", build: c10KeyGenerator},
			{name: "Parameters (accessors)", build: c10Parameters},
			{name: "bootstrapping.Evaluator", heavy: true, build: c10Bootstrapping},
		}
	}
	return c10Scs
}

func errOf(e error, f func() uint64) (uint64, error) {
	if e != nil {
		return 0, e
	}
	return f(), nil
}

// --- bgv evaluator -------------------------------------------------------------------------

func c10BGVEvaluator(ctx *core.RunCtx, g *core.Xoshiro) *c10World {
	si := ctx.Ch.Bool("scale-invariant")
	sc := c09BGV(ctx, si)
	bp, cc := c09LastBGV.params, c09LastBGV
	params := bp.Parameters
	L := params.MaxLevelQ()
	ct0, ct1 := sc.fresh(g, L), sc.fresh(g, L)
	vec := sc.gen(g, vVec, L, ct0).([]uint64)
	pt := sc.gen(g, vPt, L, ct0).(*rlwe.Plaintext)
	mk := func() any { return bgv.NewEvaluator(bp, cc.evk, si) }
	ev := func(x any) *bgv.Evaluator { return x.(*bgv.Evaluator) }
	h := func(ct *rlwe.Ciphertext, err error) (uint64, error) {
		return errOf(err, func() uint64 { return canonHashCt(params, ct) })
	}
	w := &c10World{name: "bgv.Evaluator", orig: mk(), fresh: mk}
	if si {
		w.name = "bfv.Evaluator"
	}
	w.copiers = []c10Copier{
		{"ShallowCopy", true, func(x any) any { return ev(x).ShallowCopy() }},
		{"WithKey(same)", false, func(x any) any { return ev(x).WithKey(cc.evk) }},
	}
	w.steps = []c10Step{
		{"MulRelinNew", false, func(o any) (uint64, error) { return h(ev(o).MulRelinNew(ct0, ct1)) }},
		{"MulNew(pt)", false, func(o any) (uint64, error) { return h(ev(o).MulNew(ct0, pt)) }},
		{"AddNew(vec)", false, func(o any) (uint64, error) { return h(ev(o).AddNew(ct1, vec)) }},
		{"RotateColumnsNew", false, func(o any) (uint64, error) { return h(ev(o).RotateColumnsNew(ct0, 3)) }},
		{"RotateRowsNew", false, func(o any) (uint64, error) { return h(ev(o).RotateRowsNew(ct1)) }},
		{"InnerSum", false, func(o any) (uint64, error) {
			out := bgv.NewCiphertext(bp, 1, L)
			return h(out, ev(o).InnerSum(ct0, 1, 4, out))
		}},
		{"MulRelin+Rescale", false, func(o any) (uint64, error) {
			out, err := ev(o).MulRelinNew(ct0, ct0)
			if err != nil {
				return 0, err
			}
			return h(out, ev(o).Rescale(out, out))
		}},
		{"Encoder.Encode", false, func(o any) (uint64, error) {
			p := bgv.NewPlaintext(bp, L)
			return errOf(ev(o).Encoder.Encode(vec, p), func() uint64 { return canonHashPoly(params.RingQ().AtLevel(L), 1, p.Value) })
		}},
	}
	return w
}

// c09LastBGV / c09LastCKKS expose the context picked by the last c09BGV / c09CKKS call.
var c09LastBGV *c09BGVCtx
var c09LastCKKS *c09CKKSCtx

// --- ckks evaluator ------------------------------------------------------------------------

func c10CKKSEvaluator(ctx *core.RunCtx, g *core.Xoshiro) *c10World {
	sc := c09CKKS(ctx)
	cc := c09LastCKKS
	cp := cc.params
	params := cp.Parameters
	L := params.MaxLevelQ()
	ct0, ct1 := sc.fresh(g, L), sc.fresh(g, L)
	vec := sc.gen(g, vVecC, L, ct0).([]complex128)
	mk := func() any { return ckks.NewEvaluator(cp, cc.evk) }
	ev := func(x any) *ckks.Evaluator { return x.(*ckks.Evaluator) }
	h := func(ct *rlwe.Ciphertext, err error) (uint64, error) {
		return errOf(err, func() uint64 { return canonHashCt(params, ct) })
	}
	w := &c10World{name: "ckks.Evaluator", orig: mk(), fresh: mk}
	w.copiers = []c10Copier{
		{"ShallowCopy", true, func(x any) any { return ev(x).ShallowCopy() }},
		{"WithKey(same)", false, func(x any) any { return ev(x).WithKey(cc.evk) }},
	}
	w.steps = []c10Step{
		{"MulRelinNew", false, func(o any) (uint64, error) { return h(ev(o).MulRelinNew(ct0, ct1)) }},
		{"AddNew(vec)", false, func(o any) (uint64, error) { return h(ev(o).AddNew(ct1, vec)) }},
		{"MulNew(const)", false, func(o any) (uint64, error) { return h(ev(o).MulNew(ct0, complex(0.5, -0.25))) }},
		{"RotateNew", false, func(o any) (uint64, error) { return h(ev(o).RotateNew(ct0, 2)) }},
		{"ConjugateNew", false, func(o any) (uint64, error) { return h(ev(o).ConjugateNew(ct1)) }},
		{"InnerSum", false, func(o any) (uint64, error) {
			out := ckks.NewCiphertext(cp, 1, L)
			return h(out, ev(o).InnerSum(ct0, 1, 4, out))
		}},
		{"MulRelin+Rescale", false, func(o any) (uint64, error) {
			out, err := ev(o).MulRelinNew(ct0, ct0)
			if err != nil {
				return 0, err
			}
			return h(out, ev(o).Rescale(out, out))
		}},
		{"RotateHoistedNew", false, func(o any) (uint64, error) {
			m, err := ev(o).RotateHoistedNew(ct0, []int{1, 2, 4})
			if err != nil {
				return 0, err
			}
			return canonHashCt(params, m[1]) ^ 3*canonHashCt(params, m[2]) ^ 5*canonHashCt(params, m[4]), nil
		}},
	}
	return w
}

// --- encoders ------------------------------------------------------------------------------

func c10BGVEncoder(ctx *core.RunCtx, g *core.Xoshiro) *c10World {
	sc := c09BGV(ctx, false)
	bp := c09LastBGV.params
	if ctx.Ch.Bool("small-plaintext-ring") {
		// plaintext ring smaller than the ciphertext ring: the encoder then uses its big-integer buffer
		c := ctx.Cached("c10/bgv-small-T", func(*core.Xoshiro) any {
			p, err := bgv.NewParametersFromLiteral(bgv.ParametersLiteral{LogN: 8, LogQ: []int{45, 40, 40}, LogP: []int{45}, PlaintextModulus: 257})
			if err != nil {
				return err
			}
			return &p
		})
		if p, ok := c.(*bgv.Parameters); ok {
			bp = *p
			ctx.Count("probe.plaintext-ring-smaller-than-ciphertext-ring", 1)
		} else {
			ctx.Harness("small-T parameters: %v", c)
		}
	}
	L := bp.MaxLevel()
	_ = sc
	vec := make([]uint64, bp.MaxSlots())
	for i := range vec {
		vec[i] = g.Next() % bp.PlaintextModulus()
	}
	pt0 := bgv.NewPlaintext(bp, L)
	if err := bgv.NewEncoder(bp).Encode(vec, pt0); err != nil {
		ctx.Harness("encode: %v", err)
	}
	mk := func() any { return bgv.NewEncoder(bp) }
	e := func(x any) *bgv.Encoder { return x.(*bgv.Encoder) }
	w := &c10World{name: "bgv.Encoder", orig: mk(), fresh: mk}
	w.copiers = []c10Copier{{"ShallowCopy", true, func(x any) any { return e(x).ShallowCopy() }}}
	w.steps = []c10Step{
		{"Encode", false, func(o any) (uint64, error) {
			lvl := L
			p := bgv.NewPlaintext(bp, lvl)
			return errOf(e(o).Encode(vec, p), func() uint64 { return canonHashPoly(bp.RingQ().AtLevel(lvl), 1, p.Value) })
		}},
		{"Encode(level0,scale7)", false, func(o any) (uint64, error) {
			p := bgv.NewPlaintext(bp, 0)
			p.Scale = bp.NewScale(7)
			return errOf(e(o).Encode(vec, p), func() uint64 { return canonHashPoly(bp.RingQ().AtLevel(0), 1, p.Value) })
		}},
		{"Decode", false, func(o any) (uint64, error) {
			out := make([]uint64, len(vec))
			return errOf(e(o).Decode(pt0, out), func() uint64 { return hashOperand(out) })
		}},
	}
	return w
}

func c10CKKSEncoder(ctx *core.RunCtx, g *core.Xoshiro) *c10World {
	sc := c09CKKS(ctx)
	cp := c09LastCKKS.params
	L := cp.MaxLevel()
	prec := uint(0)
	if ctx.Ch.Bool("non-default-precision") {
		prec = []uint{64, 128, 200}[ctx.Ch.Draw("precision", 3)]
		ctx.Count("probe.encoder-non-default-precision", 1)
	}
	vec := sc.gen(g, vVecC, L, nil).([]complex128)
	pt0 := ckks.NewPlaintext(cp, L)
	if err := ckks.NewEncoder(cp).Encode(vec, pt0); err != nil {
		ctx.Harness("encode: %v", err)
	}
	mk := func() any { return ckks.NewEncoder(cp, prec) }
	e := func(x any) *ckks.Encoder { return x.(*ckks.Encoder) }
	w := &c10World{name: "ckks.Encoder", orig: mk(), fresh: mk}
	w.copiers = []c10Copier{{"ShallowCopy", true, func(x any) any { return e(x).ShallowCopy() }}}
	w.steps = []c10Step{
		{"Encode", false, func(o any) (uint64, error) {
			p := ckks.NewPlaintext(cp, L)
			return errOf(e(o).Encode(vec, p), func() uint64 { return canonHashPoly(cp.RingQ().AtLevel(L), 1, p.Value) })
		}},
		{"Encode(sparse)", false, func(o any) (uint64, error) {
			p := ckks.NewPlaintext(cp, 1)
			p.LogDimensions.Cols = cp.LogMaxSlots() - 2
			return errOf(e(o).Encode(vec[:len(vec)/4], p), func() uint64 { return canonHashPoly(cp.RingQ().AtLevel(1), 1, p.Value) })
		}},
		{"Decode", false, func(o any) (uint64, error) {
			out := make([]complex128, len(vec))
			return errOf(e(o).Decode(pt0, out), func() uint64 { return hashOperand(out) })
		}},
		{"Prec", false, func(o any) (uint64, error) { return uint64(e(o).Prec()), nil }},
	}
	return w
}

// --- encryptor / decryptor -----------------------------------------------------------------

type c10EncDecObj struct {
	enc *rlwe.Encryptor
	dec *rlwe.Decryptor
}

func c10EncDec(ctx *core.RunCtx, g *core.Xoshiro) *c10World {
	sc := c09BGV(ctx, false)
	cc := c09LastBGV
	bp := cc.params
	L := bp.MaxLevel()
	usePk := ctx.Ch.Bool("encrypt-with-pk")
	var key rlwe.EncryptionKey = cc.sk
	if usePk {
		key = cc.pk
	}
	vec := sc.gen(g, vVec, L, nil).([]uint64)
	ecd := bgv.NewEncoder(bp)
	pt := bgv.NewPlaintext(bp, L)
	_ = ecd.Encode(vec, pt)
	ct0 := sc.fresh(g, L)
	ctCoeff := ct0.CopyNew()
	for i := range ctCoeff.Value {
		bp.RingQ().AtLevel(ctCoeff.Level()).INTT(ctCoeff.Value[i], ctCoeff.Value[i])
	}
	ctCoeff.IsNTT = false
	mk := func() any { return &c10EncDecObj{bgv.NewEncryptor(bp, key), bgv.NewDecryptor(bp, cc.sk)} }
	o := func(x any) *c10EncDecObj { return x.(*c10EncDecObj) }
	w := &c10World{name: "rlwe.Encryptor+Decryptor", orig: mk(), fresh: mk}
	w.copiers = []c10Copier{
		{"ShallowCopy", true, func(x any) any { return &c10EncDecObj{o(x).enc.ShallowCopy(), o(x).dec.ShallowCopy()} }},
		{"WithKey(same)", true, func(x any) any { return &c10EncDecObj{o(x).enc.ShallowCopy().WithKey(key), o(x).dec.WithKey(cc.sk)} }},
		{"WithPRNG", false, func(x any) any {
			k := make([]byte, 32)
			g.Fill(k)
			prng, _ := sampling.NewKeyedPRNG(k)
			return &c10EncDecObj{o(x).enc.WithPRNG(prng), o(x).dec}
		}},
	}
	w.steps = []c10Step{
		{"EncryptNew", true, func(x any) (uint64, error) {
			ct, err := o(x).enc.EncryptNew(pt)
			if err != nil {
				return 0, err
			}
			// validity: decrypts (with a new decryptor) and decodes to the message
			got := make([]uint64, len(vec))
			if err := bgv.NewEncoder(bp).Decode(bgv.NewDecryptor(bp, cc.sk).DecryptNew(ct), got); err != nil {
				return 0, err
			}
			if hashOperand(got) != hashOperand(vec) {
				return 0, fmt.Errorf("INVALID: the ciphertext produced by the copy does not decrypt to the message")
			}
			return canonHashCt(bp.Parameters, ct), nil
		}},
		{"EncryptZeroNew", true, func(x any) (uint64, error) {
			ct := o(x).enc.EncryptZeroNew(1)
			return canonHashCt(bp.Parameters, ct), nil
		}},
		{"DecryptNew", false, func(x any) (uint64, error) {
			p := o(x).dec.DecryptNew(ct0)
			return canonHashPoly(bp.RingQ().AtLevel(p.Level()), 1, p.Value), nil
		}},
		{"DecryptNew(coefficient domain)", false, func(x any) (uint64, error) {
			// the same ciphertext outside the NTT domain: decryption goes through the decryptor's own buffer
			p := o(x).dec.DecryptNew(ctCoeff)
			return canonHashPoly(bp.RingQ().AtLevel(p.Level()), 1, p.Value), nil
		}},
	}
	return w
}

// --- rlwe evaluator with Galois keys added after construction ---------------------------------

func c10LateKeys(ctx *core.RunCtx, g *core.Xoshiro) *c10World {
	sc := c09CKKS(ctx)
	cc := c09LastCKKS
	cp := cc.params
	params := cp.Parameters
	L := params.MaxLevelQ()
	ct0 := sc.fresh(g, L)
	// a key set that holds only some of the keys when the evaluator is built; the others are added later
	late := map[int]bool{}
	rots := []int{1, 2, 3, 4}
	for _, r := range rots {
		late[r] = ctx.Ch.Bool("key-added-late")
	}
	mkSet := func(all bool) *rlwe.MemEvaluationKeySet {
		ks := rlwe.NewMemEvaluationKeySet(cc.evk.RelinearizationKey)
		for _, r := range rots {
			if all || !late[r] {
				gk := cc.evk.GaloisKeys[params.GaloisElement(r)]
				ks.GaloisKeys[gk.GaloisElement] = gk
			}
		}
		return ks
	}
	mk := func() any {
		ks := mkSet(false)
		ev := rlwe.NewEvaluator(params, ks)
		for _, r := range rots {
			if late[r] {
				gk := cc.evk.GaloisKeys[params.GaloisElement(r)]
				ks.GaloisKeys[gk.GaloisElement] = gk
			}
		}
		return ev
	}
	nl := 0
	for _, r := range rots {
		if late[r] {
			nl++
		}
	}
	if nl > 0 {
		ctx.Count("probe.galois-keys-added-after-construction", 1)
	}
	ev := func(x any) *rlwe.Evaluator { return x.(*rlwe.Evaluator) }
	w := &c10World{name: "rlwe.Evaluator+late-keys", orig: mk(), fresh: mk}
	w.copiers = []c10Copier{{"ShallowCopy", true, func(x any) any { return ev(x).ShallowCopy() }}}
	for _, r := range rots {
		r := r
		w.steps = append(w.steps, c10Step{fmt.Sprintf("Automorphism(rot %d)", r), false, func(o any) (uint64, error) {
			out := rlwe.NewCiphertext(params, 1, L)
			err := ev(o).Automorphism(ct0, params.GaloisElement(r), out)
			return errOf(err, func() uint64 { return canonHashCt(params, out) })
		}})
	}
	return w
}

// --- rings and basis extenders -----------------------------------------------------------------

type c10RingObj struct {
	r  *ring.Ring
	be *ring.BasisExtender
	lv int
}

func c10Ring(ctx *core.RunCtx, g *core.Xoshiro) *c10World {
	c09BGV(ctx, false)
	bp := c09LastBGV.params
	params := bp.Parameters
	rQ, rP := params.RingQ(), params.RingP()
	L := params.MaxLevelQ()
	a, b := rQ.NewPoly(), rQ.NewPoly()
	catalog.FillPoly(rQ, a, g)
	catalog.FillPoly(rQ, b, g)
	mk := func() any { return &c10RingObj{rQ, ring.NewBasisExtender(rQ, rP), L} }
	o := func(x any) *c10RingObj { return x.(*c10RingObj) }
	w := &c10World{name: "ring.Ring.AtLevel+BasisExtender", orig: mk(), fresh: mk}
	w.copiers = []c10Copier{
		{"AtLevel+ShallowCopy", true, func(x any) any {
			lv := o(x).lv
			if lv > 0 && ctx.Ch.Bool("lower-level") {
				lv--
			}
			return &c10RingObj{o(x).r.AtLevel(lv), o(x).be.ShallowCopy(), lv}
		}},
	}
	w.steps = []c10Step{
		{"NTT+MulCoeffs+INTT", false, func(x any) (uint64, error) {
			r := o(x).r.AtLevel(0) // all objects compute at a common level so results are comparable
			p, q := r.NewPoly(), r.NewPoly()
			r.NTT(a, p)
			r.NTT(b, q)
			r.MForm(p, p)
			r.MulCoeffsMontgomery(p, q, p)
			r.INTT(p, p)
			return canonHashPoly(r, 1, p), nil
		}},
		{"ModUpQtoP", false, func(x any) (uint64, error) {
			out := rP.NewPoly()
			o(x).be.ModUpQtoP(0, rP.Level(), a, out)
			return canonHashPoly(rP, 2, out), nil
		}},
		{"ModDownQPtoQ", false, func(x any) (uint64, error) {
			pP := rP.NewPoly()
			o(x).be.ModUpQtoP(0, rP.Level(), b, pP)
			out := rQ.AtLevel(0).NewPoly()
			o(x).be.ModDownQPtoQ(0, rP.Level(), a, pP, out)
			return canonHashPoly(rQ.AtLevel(0), 3, out), nil
		}},
	}
	return w
}

// --- multiparty key generation protocols -----------------------------------------------------------

type c10KG struct {
	cpk multiparty.PublicKeyGenProtocol
	rkg multiparty.RelinearizationKeyGenProtocol
	gkg multiparty.GaloisKeyGenProtocol
	evk multiparty.EvaluationKeyGenProtocol
}

func c10MPKeygen(ctx *core.RunCtx, g *core.Xoshiro) *c10World {
	params, _ := drawParams(ctx, catalog.SpecOpts{MinLogN: 5, MaxLogN: 7, MinQ: 2, MaxQ: 3, MinP: 0, MaxP: 1, MinBits: 30, MaxBits: 55})
	kgen := rlwe.NewKeyGenerator(params)
	sk, sk2 := kgen.GenSecretKeyNew(), kgen.GenSecretKeyNew()
	crsKey := make([]byte, 32)
	g.Fill(crsKey)
	crs, _ := sampling.NewKeyedPRNG(crsKey)
	mk := func() any {
		return &c10KG{multiparty.NewPublicKeyGenProtocol(params), multiparty.NewRelinearizationKeyGenProtocol(params), multiparty.NewGaloisKeyGenProtocol(params), multiparty.NewEvaluationKeyGenProtocol(params)}
	}
	base := mk().(*c10KG)
	crpC := base.cpk.SampleCRP(crs)
	crpR := base.rkg.SampleCRP(crs)
	crpG := base.gkg.SampleCRP(crs)
	crpE := base.evk.SampleCRP(crs)
	galEl := params.GaloisElement(1 + int(g.Next()%5))
	o := func(x any) *c10KG { return x.(*c10KG) }
	B := big.NewInt(int64(params.NoiseBound()))
	w := &c10World{name: "multiparty.keygen", orig: base}
	w.copiers = []c10Copier{{"ShallowCopy", true, func(x any) any {
		return &c10KG{o(x).cpk.ShallowCopy(), o(x).rkg.ShallowCopy(), o(x).gkg.ShallowCopy(), o(x).evk.ShallowCopy()}
	}}}
	w.steps = []c10Step{
		{"cpk.GenShare", true, func(x any) (uint64, error) {
			s := o(x).cpk.AllocateShare()
			o(x).cpk.GenShare(sk, crpC, &s)
			// validity: share + a*sk = e small
			gd := &rlwe.GadgetCiphertext{Value: [][]rlwe.VectorQP{{rlwe.VectorQP{s.Value, crpC.Value}}}}
			if e, _ := gadgetNoise(params, gd, params.RingQ().NewPoly(), sk.Value); e.Cmp(B) > 0 {
				return 0, fmt.Errorf("INVALID: public-key share of a copy has error %s > %s", e.String(), B.String())
			}
			return hashQP(s.Value), nil
		}},
		{"evk.GenShare", true, func(x any) (uint64, error) {
			s := o(x).evk.AllocateShare()
			if err := o(x).evk.GenShare(sk, sk2, crpE, &s); err != nil {
				return 0, err
			}
			return hashGadget(&s.GadgetCiphertext), nil
		}},
		{"gkg.GenShare", true, func(x any) (uint64, error) {
			s := o(x).gkg.AllocateShare()
			if err := o(x).gkg.GenShare(sk, galEl, crpG, &s); err != nil {
				return 0, err
			}
			return hashGadget(&s.GadgetCiphertext), nil
		}},
		{"rkg.GenShareRoundOne", true, func(x any) (uint64, error) {
			eph, r1, _ := o(x).rkg.AllocateShare()
			o(x).rkg.GenShareRoundOne(sk, crpR, eph, &r1)
			return hashGadget(&r1.GadgetCiphertext), nil
		}},
	}
	return w
}

func hashGadget(gc *rlwe.GadgetCiphertext) uint64 {
	h := uint64(11)
	for i := range gc.Value {
		for j := range gc.Value[i] {
			for k := range gc.Value[i][j] {
				h = core.SplitMix64(h ^ hashQP(gc.Value[i][j][k]))
			}
		}
	}
	return h
}

// --- multiparty key switching -------------------------------------------------------------------------

type c10KS struct {
	ks  multiparty.KeySwitchProtocol
	pks multiparty.PublicKeySwitchProtocol
}

func c10MPKeySwitch(ctx *core.RunCtx, g *core.Xoshiro) *c10World {
	sc := c09BGV(ctx, false)
	cc := c09LastBGV
	params := cc.params.Parameters
	L := params.MaxLevelQ()
	ct := sc.fresh(g, L)
	sigma := math.Exp2(float64(6 + ctx.Ch.Draw("sigma-log", 14)))
	noise := ring.DiscreteGaussian{Sigma: sigma, Bound: 6 * sigma}
	kgen := rlwe.NewKeyGenerator(params)
	skOut, pkOut := kgen.GenKeyPairNew()
	mk := func() any {
		ks, err := multiparty.NewKeySwitchProtocol(params, noise)
		if err != nil {
			ctx.Harness("ks: %v", err)
		}
		pks, err := multiparty.NewPublicKeySwitchProtocol(params, noise)
		if err != nil {
			ctx.Harness("pks: %v", err)
		}
		return &c10KS{ks, pks}
	}
	o := func(x any) *c10KS { return x.(*c10KS) }
	ringQ := params.RingQ()
	d := &c16Deploy{ctx: ctx, params: params, sigma: sigma}
	eff := math.Sqrt(params.NoiseFreshSK()*params.NoiseFreshSK() + sigma*sigma)
	d.shareB, _ = new(big.Float).SetFloat64(math.Floor(6*eff + 1.5)).Int(nil)
	w := &c10World{name: "multiparty.keyswitch", orig: mk()}
	w.copiers = []c10Copier{{"ShallowCopy", true, func(x any) any { return &c10KS{o(x).ks.ShallowCopy(), o(x).pks.ShallowCopy()} }}}
	w.steps = []c10Step{
		{"ks.GenShare", true, func(x any) (uint64, error) {
			s := o(x).ks.AllocateShare(L)
			o(x).ks.GenShare(cc.sk, skOut, ct, &s)
			// smudging noise of a copy: recovered error within the bound and not too small
			delta, t, e := ringQ.NewPoly(), ringQ.NewPoly(), ringQ.NewPoly()
			ringQ.Sub(cc.sk.Value.Q, skOut.Value.Q, delta)
			ringQ.MulCoeffsMontgomery(ct.Value[1], delta, t)
			ringQ.Sub(s.Value, t, e)
			ringQ.INTT(e, e)
			if msg := smudgeCheck(polyCentered(ringQ, e), d.shareB, sigma); msg != "" {
				return 0, fmt.Errorf("INVALID: %s", msg)
			}
			return hashPoly(1, s.Value), nil
		}},
		{"pks.GenShare", true, func(x any) (uint64, error) {
			s := o(x).pks.AllocateShare(L)
			o(x).pks.GenShare(cc.sk, pkOut, ct, &s)
			return hashPoly(hashPoly(2, s.Value[0]), s.Value[1]), nil
		}},
	}
	return w
}

// smudgeCheck returns a message if the error vector violates the hard bound or the sigma lower bound.
func smudgeCheck(e []*big.Int, bound *big.Int, sigma float64) string {
	var sum, sumsq float64
	for _, v := range e {
		if v.CmpAbs(bound) > 0 {
			return fmt.Sprintf("share error coefficient %s beyond the hard bound %s", v.String(), bound.String())
		}
		f, _ := new(big.Float).SetInt(v).Float64()
		sum += f
		sumsq += f * f
	}
	n := float64(len(e))
	if n >= 64 {
		mean := sum / n
		sd := math.Sqrt(math.Max(sumsq/n-mean*mean, 0))
		if thr := (1 - 8/math.Sqrt(2*n)) * sigma; sd < thr {
			return fmt.Sprintf("share noise has empirical sigma %.3g, requested smudging sigma %.3g (threshold %.3g)", sd, sigma, thr)
		}
	}
	return ""
}

// --- mpbgv / mpckks protocols -----------------------------------------------------------------------------

func c10MPBGV(ctx *core.RunCtx, g *core.Xoshiro) *c10World {
	sc := c09BGV(ctx, false)
	cc := c09LastBGV
	bp := cc.params
	params := bp.Parameters
	L := params.MaxLevelQ()
	ct := sc.fresh(g, L)
	noise := ring.DiscreteGaussian{Sigma: 8, Bound: 48}
	crsKey := make([]byte, 32)
	g.Fill(crsKey)
	crs, _ := sampling.NewKeyedPRNG(crsKey)
	mk := func() any {
		p, err := mpbgv.NewRefreshProtocol(bp, noise)
		if err != nil {
			ctx.Harness("refresh: %v", err)
		}
		return &p
	}
	base := mk().(*mpbgv.RefreshProtocol)
	crp := base.SampleCRP(L, crs)
	o := func(x any) *mpbgv.RefreshProtocol { return x.(*mpbgv.RefreshProtocol) }
	w := &c10World{name: "mpbgv.protocols", orig: base}
	w.copiers = []c10Copier{{"ShallowCopy", true, func(x any) any { c := o(x).ShallowCopy(); return &c }}}
	w.steps = []c10Step{
		{"Refresh.GenShare", true, func(x any) (uint64, error) {
			s := o(x).AllocateShare(ct.Level(), L)
			if err := o(x).GenShare(cc.sk, ct, crp, &s); err != nil {
				return 0, err
			}
			return hashPoly(hashPoly(3, s.EncToShareShare.Value), s.ShareToEncShare.Value), nil
		}},
		{"Refresh.single-party", false, func(x any) (uint64, error) {
			// one party refreshes alone: the result must decode to the message whatever copy is used
			s := o(x).AllocateShare(ct.Level(), L)
			if err := o(x).GenShare(cc.sk, ct, crp, &s); err != nil {
				return 0, err
			}
			out := ct.CopyNew()
			if err := o(x).Finalize(out, crp, s, out); err != nil {
				return 0, err
			}
			got := make([]uint64, bp.MaxSlots())
			want := make([]uint64, bp.MaxSlots())
			ecd := bgv.NewEncoder(bp)
			dec := bgv.NewDecryptor(bp, cc.sk)
			if err := ecd.Decode(dec.DecryptNew(out), got); err != nil {
				return 0, err
			}
			_ = ecd.Decode(dec.DecryptNew(ct), want)
			if hashOperand(got) != hashOperand(want) {
				return 0, fmt.Errorf("INVALID: refresh through this object does not preserve the message")
			}
			return hashOperand(got), nil
		}},
	}
	return w
}

func c10MPCKKS(ctx *core.RunCtx, g *core.Xoshiro) *c10World {
	sc := c09CKKS(ctx)
	cc := c09LastCKKS
	cp := cc.params
	params := cp.Parameters
	L := params.MaxLevelQ()
	ct := sc.fresh(g, L)
	noise := ring.DiscreteGaussian{Sigma: 8, Bound: 48}
	minLevel, logBound, ok := mpckks.GetMinimumLevelForRefresh(20, ct.Scale, 1, cp.Q())
	if !ok || minLevel > L {
		return nil
	}
	crsKey := make([]byte, 32)
	g.Fill(crsKey)
	crs, _ := sampling.NewKeyedPRNG(crsKey)
	prec := uint(256)
	mk := func() any {
		p, err := mpckks.NewRefreshProtocol(cp, prec, noise)
		if err != nil {
			ctx.Harness("refresh: %v", err)
		}
		return &p
	}
	base := mk().(*mpckks.RefreshProtocol)
	crp := base.SampleCRP(L, crs)
	o := func(x any) *mpckks.RefreshProtocol { return x.(*mpckks.RefreshProtocol) }
	w := &c10World{name: "mpckks.protocols", orig: base}
	w.copiers = []c10Copier{{"ShallowCopy", true, func(x any) any { c := o(x).ShallowCopy(); return &c }}}
	ecd := ckks.NewEncoder(cp)
	want := make([]complex128, cp.MaxSlots())
	_ = ecd.Decode(ckks.NewDecryptor(cp, cc.sk).DecryptNew(ct), want)
	w.steps = []c10Step{
		{"Refresh.GenShare", true, func(x any) (uint64, error) {
			s := o(x).AllocateShare(minLevel, L)
			if err := o(x).GenShare(cc.sk, logBound, ct, crp, &s); err != nil {
				return 0, err
			}
			return hashPoly(hashPoly(3, s.EncToShareShare.Value), s.ShareToEncShare.Value), nil
		}},
		{"Refresh.finalize-only", true, func(x any) (uint64, error) {
			// this object only finalises: the share comes from another protocol object
			other, err := mpckks.NewRefreshProtocol(cp, prec, noise)
			if err != nil {
				return 0, err
			}
			s := other.AllocateShare(minLevel, L)
			if err := other.GenShare(cc.sk, logBound, ct, crp, &s); err != nil {
				return 0, err
			}
			out := ct.CopyNew()
			if err := o(x).Finalize(out, crp, s, out); err != nil {
				return 0, err
			}
			got := make([]complex128, cp.MaxSlots())
			if err := ckks.NewEncoder(cp).Decode(ckks.NewDecryptor(cp, cc.sk).DecryptNew(out), got); err != nil {
				return 0, err
			}
			for i := range got {
				if d := got[i] - want[i]; math.Hypot(real(d), imag(d)) > 1e-3 {
					return 0, fmt.Errorf("INVALID: finalising a refresh through this object does not preserve the message (slot %d off by %g)", i, math.Hypot(real(d), imag(d)))
				}
			}
			return canonHashCt(params, out), nil
		}},
		{"WithParams+transform", true, func(x any) (uint64, error) {
			// re-target the protocol object to (the same) output parameters and run a single-party transform through the result
			p := o(x).MaskedLinearTransformationProtocol.WithParams(cp)
			s := p.AllocateShare(minLevel, L)
			if err := p.GenShare(cc.sk, cc.sk, logBound, ct, crp, nil, &s); err != nil {
				return 0, err
			}
			out := ct.CopyNew()
			if err := p.Transform(out, nil, crp, s, out); err != nil {
				return 0, err
			}
			got := make([]complex128, cp.MaxSlots())
			if err := ckks.NewEncoder(cp).Decode(ckks.NewDecryptor(cp, cc.sk).DecryptNew(out), got); err != nil {
				return 0, err
			}
			for i := range got {
				if d := got[i] - want[i]; math.Hypot(real(d), imag(d)) > 1e-3 {
					return 0, fmt.Errorf("INVALID: a transform through the re-targeted object does not preserve the message (slot %d off by %g)", i, math.Hypot(real(d), imag(d)))
				}
			}
			return canonHashCt(params, out), nil
		}},
		{"Refresh.single-party", true, func(x any) (uint64, error) {
			s := o(x).AllocateShare(minLevel, L)
			if err := o(x).GenShare(cc.sk, logBound, ct, crp, &s); err != nil {
				return 0, err
			}
			out := ct.CopyNew()
			if err := o(x).Finalize(out, crp, s, out); err != nil {
				return 0, err
			}
			got := make([]complex128, cp.MaxSlots())
			if err := ckks.NewEncoder(cp).Decode(ckks.NewDecryptor(cp, cc.sk).DecryptNew(out), got); err != nil {
				return 0, err
			}
			for i := range got {
				if d := got[i] - want[i]; math.Hypot(real(d), imag(d)) > 1e-3 {
					return 0, fmt.Errorf("INVALID: refresh through this object does not preserve the message (slot %d off by %g)", i, math.Hypot(real(d), imag(d)))
				}
			}
			return canonHashCt(params, out), nil
		}},
	}
	return w
}

// --- rgsw ---------------------------------------------------------------------------------------------------

// rgswEnc is what the scenario needs of an rgsw encryptor; the key-rebinding constructors of
// rgsw.Encryptor are promoted from the embedded rlwe.Encryptor and return that type.
type rgswEnc interface {
	Encrypt(pt *rlwe.Plaintext, ct interface{}) error
}

type c10RGSWObj struct {
	enc rgswEnc
	ev  *rgsw.Evaluator
}

func c10RGSW(ctx *core.RunCtx, g *core.Xoshiro) *c10World {
	sc := c09CKKS(ctx)
	cc := c09LastCKKS
	params := cc.params.Parameters
	L := params.MaxLevelQ()
	ct := sc.fresh(g, L)
	pt := rlwe.NewPlaintext(params, L)
	pt.IsNTT = true
	catalog.FillPoly(params.RingQ(), pt.Value, g)
	encBase := rgsw.NewEncryptor(params, cc.sk)
	rct := rgsw.NewCiphertext(params, L, params.MaxLevelP(), 0)
	if err := encBase.Encrypt(pt, rct); err != nil {
		ctx.Harness("rgsw encrypt: %v", err)
	}
	mk := func() any { return &c10RGSWObj{rgsw.NewEncryptor(params, cc.sk), rgsw.NewEvaluator(params, cc.evk)} }
	o := func(x any) *c10RGSWObj { return x.(*c10RGSWObj) }
	w := &c10World{name: "rgsw", orig: mk(), fresh: mk}
	shallow := func(e rgswEnc) rgswEnc {
		switch t := e.(type) {
		case *rgsw.Encryptor:
			return t.ShallowCopy()
		case *rlwe.Encryptor:
			return t.ShallowCopy()
		}
		return e
	}
	w.copiers = []c10Copier{
		{"ShallowCopy", true, func(x any) any { return &c10RGSWObj{shallow(o(x).enc), o(x).ev.ShallowCopy()} }},
		{"WithKey(same)", false, func(x any) any { return &c10RGSWObj{shallow(o(x).enc), o(x).ev.WithKey(cc.evk.ShallowCopy())} }},
		{"Encryptor.WithKey(same)", false, func(x any) any {
			// rebinding the encryption key of the rgsw encryptor (to the key it already has)
			switch t := o(x).enc.(type) {
			case *rgsw.Encryptor:
				return &c10RGSWObj{t.WithKey(cc.sk), o(x).ev}
			case *rlwe.Encryptor:
				return &c10RGSWObj{t.WithKey(cc.sk), o(x).ev}
			}
			return x
		}},
	}
	w.steps = []c10Step{
		{"ExternalProduct", false, func(x any) (uint64, error) {
			out := rlwe.NewCiphertext(params, 1, L)
			*out.MetaData = *ct.MetaData
			o(x).ev.ExternalProduct(ct, rct, out)
			return canonHashCt(params, out), nil
		}},
		{"Encrypt", true, func(x any) (uint64, error) {
			c := rgsw.NewCiphertext(params, L, params.MaxLevelP(), 0)
			if err := o(x).enc.Encrypt(pt, c); err != nil {
				return 0, err
			}
			return hashGadget(&c.Value[0]) ^ 7*hashGadget(&c.Value[1]), nil
		}},
	}
	return w
}

// --- bootstrapping evaluator (thorough tier only) --------------------------------------------------------

type c10BtpCtx struct {
	params ckks.Parameters
	btp    bootstrapping.Parameters
	keys   *bootstrapping.EvaluationKeys
	eval   *bootstrapping.Evaluator
	cts    []*rlwe.Ciphertext
}

func c10Bootstrapping(ctx *core.RunCtx, g *core.Xoshiro) *c10World {
	variant := ctx.Ch.Draw("btp-variant", 2) // 0: same ring degree, 1: residual ring of half the degree (packing)
	cc := c10BtpContext(ctx, variant)
	return c10BootstrappingWorld(ctx, cc)
}

// c10BtpContext returns the worker's cached bootstrapping context (parameters, keys, evaluator, inputs).
func c10BtpContext(ctx *core.RunCtx, variant int) *c10BtpCtx {
	c := ctx.Cached(fmt.Sprintf("c10/bootstrapping/%d", variant), func(*core.Xoshiro) any {
		lit := ckks.ParametersLiteral{LogN: 10, LogQ: []int{60, 40}, LogP: []int{61}, LogDefaultScale: 40}
		btpLit := bootstrapping.ParametersLiteral{}
		if variant == 1 {
			lit.LogNthRoot = lit.LogN + 1
			lit.LogN--
		}
		params, err := ckks.NewParametersFromLiteral(lit)
		if err != nil {
			return err
		}
		n2 := 10
		btpLit.LogN = &n2
		btp, err := bootstrapping.NewParametersFromLiteral(params, btpLit)
		if err != nil {
			return err
		}
		btp.SlotsToCoeffsParameters.LogSlots = btp.BootstrappingParameters.LogN() - 1
		btp.CoeffsToSlotsParameters.LogSlots = btp.BootstrappingParameters.LogN() - 1
		btp.Mod1ParametersLiteral.LogMessageRatio += 16 - params.LogN()
		sk := rlwe.NewKeyGenerator(params).GenSecretKeyNew()
		keys, _, err := btp.GenEvaluationKeys(sk)
		if err != nil {
			return err
		}
		ev, err := bootstrapping.NewEvaluator(btp, keys)
		if err != nil {
			return err
		}
		ecd := ckks.NewEncoder(params)
		enc := rlwe.NewEncryptor(params, sk)
		var cts []*rlwe.Ciphertext
		for k := 0; k < 3; k++ {
			v := make([]complex128, params.MaxSlots())
			for i := range v {
				v[i] = complex(float64((i*7+k*3)%17)/17-0.5, float64((i*5+k)%13)/13-0.5)
			}
			pt := ckks.NewPlaintext(params, 0)
			if k > 0 {
				// sparsely packed inputs: several of them are packed into one ciphertext before bootstrapping
				pt.LogDimensions.Cols = params.LogMaxSlots() - 2
				v = v[:len(v)/4]
			}
			if err := ecd.Encode(v, pt); err != nil {
				return err
			}
			ct, err := enc.EncryptNew(pt)
			if err != nil {
				return err
			}
			cts = append(cts, ct)
		}
		return &c10BtpCtx{params, btp, keys, ev, cts}
	})
	cc, ok := c.(*c10BtpCtx)
	if !ok {
		ctx.Harness("bootstrapping context: %v", c)
	}
	return cc
}

func c10BootstrappingWorld(ctx *core.RunCtx, cc *c10BtpCtx) *c10World {
	ev := func(x any) *bootstrapping.Evaluator { return x.(*bootstrapping.Evaluator) }
	params := cc.params.Parameters
	w := &c10World{name: "bootstrapping.Evaluator", orig: cc.eval}
	w.copiers = []c10Copier{{"ShallowCopy", true, func(x any) any { return ev(x).ShallowCopy() }}}
	w.steps = []c10Step{
		{"Bootstrap", false, func(o any) (uint64, error) {
			out, err := ev(o).Bootstrap(cc.cts[0].CopyNew())
			return errOf(err, func() uint64 { return canonHashCt(params, out) })
		}},
		{"BootstrapMany", false, func(o any) (uint64, error) {
			in := []rlwe.Ciphertext{*cc.cts[1].CopyNew(), *cc.cts[2].CopyNew()}
			out, err := ev(o).BootstrapMany(in)
			if err != nil {
				return 0, err
			}
			h := uint64(5)
			for i := range out {
				h = core.SplitMix64(h ^ canonHashCt(params, &out[i]))
			}
			return h, nil
		}},
	}
	return w
}

// --- ring packing evaluator ---------------------------------------------------------------------------

type c10RPCtx struct {
	params rlwe.Parameters
	evk    *rlwe.RingPackingEvaluationKey
	ct     *rlwe.Ciphertext
	halves [2]*rlwe.Ciphertext
	small  map[int]*rlwe.Ciphertext
}

func c10RingPacking(ctx *core.RunCtx, g *core.Xoshiro) *c10World {
	return c10RingPackingWorld(ctx, g, c10RPContext(ctx))
}

// c10RPContext: ring-packing keys over the rings of degree 2^5..2^7 and sample ciphertexts (worker cache).
func c10RPContext(ctx *core.RunCtx) *c10RPCtx {
	variant := ctx.Ch.Draw("ringpacking-variant", 2) // number of auxiliary primes - 1
	c := ctx.Cached(fmt.Sprintf("c10/ringpacking/%d", variant), func(*core.Xoshiro) any {
		lit := rlwe.ParametersLiteral{LogN: 7, LogQ: []int{50, 40}, LogP: []int{50, 50}[:1+variant], NTTFlag: true}
		params, err := rlwe.NewParametersFromLiteral(lit)
		if err != nil {
			return err
		}
		const small = 5
		sk := rlwe.NewKeyGenerator(params).GenSecretKeyNew()
		L, LP := params.MaxLevelQ(), params.MaxLevelP()
		ep := rlwe.EvaluationKeyParameters{LevelQ: &L, LevelP: &LP}
		evk := &rlwe.RingPackingEvaluationKey{}
		ski, err := evk.GenRingSwitchingKeys(params, sk, small, ep)
		if err != nil {
			return err
		}
		evk.GenRepackEvaluationKeys(evk.Parameters[small], ski[small], ep)
		evk.GenRepackEvaluationKeys(evk.Parameters[params.LogN()], ski[params.LogN()], ep)
		evk.GenExtractEvaluationKeys(evk.Parameters[small], ski[small], ep)
		mkct := func(p rlwe.Parameters, k *rlwe.SecretKey, seed uint64) (*rlwe.Ciphertext, error) {
			pt := rlwe.NewPlaintext(p, p.MaxLevel())
			x := core.NewXoshiro(seed)
			for i := range pt.Value.Coeffs {
				for j := range pt.Value.Coeffs[i] {
					pt.Value.Coeffs[i][j] = x.Next() % 1024
				}
			}
			pt.IsNTT = false
			p.RingQ().NTT(pt.Value, pt.Value)
			pt.IsNTT = true
			return rlwe.NewEncryptor(p, k).EncryptNew(pt)
		}
		cc := &c10RPCtx{params: params, evk: evk, small: map[int]*rlwe.Ciphertext{}}
		if cc.ct, err = mkct(params, sk, 1); err != nil {
			return err
		}
		ph := *evk.Parameters[params.LogN()-1].GetRLWEParameters()
		for i := range cc.halves {
			if cc.halves[i], err = mkct(ph, ski[ph.LogN()], uint64(2+i)); err != nil {
				return err
			}
		}
		ps := *evk.Parameters[small].GetRLWEParameters()
		for _, i := range []int{0, 3, 17, 64, 100} {
			if cc.small[i], err = mkct(ps, ski[small], uint64(10+i)); err != nil {
				return err
			}
		}
		return cc
	})
	cc, ok := c.(*c10RPCtx)
	if !ok {
		ctx.Harness("ring packing context: %v", c)
	}
	return cc
}

func c10RingPackingWorld(ctx *core.RunCtx, g *core.Xoshiro, cc *c10RPCtx) *c10World {
	ev := func(x any) *rlwe.RingPackingEvaluator { return x.(*rlwe.RingPackingEvaluator) }
	hct := func(ct *rlwe.Ciphertext) uint64 {
		return canonHashCt(*cc.evk.Parameters[ct.LogN()].GetRLWEParameters(), ct)
	}
	hmap := func(m map[int]*rlwe.Ciphertext, err error) (uint64, error) {
		if err != nil {
			return 0, err
		}
		var keys []int
		for k := range m {
			keys = append(keys, k)
		}
		sort.Ints(keys)
		h := uint64(len(keys))
		for _, k := range keys {
			h = core.SplitMix64(h ^ uint64(k)*0x9e37 ^ hct(m[k]))
		}
		return h, nil
	}
	copies := func() map[int]*rlwe.Ciphertext {
		m := map[int]*rlwe.Ciphertext{}
		for k, v := range cc.small {
			m[k] = v.CopyNew()
		}
		return m
	}
	idx := map[int]bool{0: true, 5: true, 32: true, 77: true}
	mk := func() any { return rlwe.NewRingPackingEvaluator(cc.evk) }
	w := &c10World{name: "rlwe.RingPackingEvaluator", orig: mk(), fresh: mk}
	w.copiers = []c10Copier{{"ShallowCopy", true, func(x any) any { return ev(x).ShallowCopy() }}}
	w.steps = []c10Step{
		{"SplitNew", false, func(o any) (uint64, error) {
			a, b, err := ev(o).SplitNew(cc.ct.CopyNew())
			return errOf(err, func() uint64 { return core.SplitMix64(hct(a)) ^ hct(b) })
		}},
		{"MergeNew", false, func(o any) (uint64, error) {
			out, err := ev(o).MergeNew(cc.halves[0].CopyNew(), cc.halves[1].CopyNew())
			return errOf(err, func() uint64 { return hct(out) })
		}},
		{"Extract", false, func(o any) (uint64, error) { return hmap(ev(o).Extract(cc.ct.CopyNew(), idx)) }},
		{"ExtractNaive", false, func(o any) (uint64, error) { return hmap(ev(o).ExtractNaive(cc.ct.CopyNew(), idx)) }},
		{"Repack", false, func(o any) (uint64, error) {
			out, err := ev(o).Repack(copies())
			return errOf(err, func() uint64 { return hct(out) })
		}},
		{"RepackNaive", false, func(o any) (uint64, error) {
			out, err := ev(o).RepackNaive(copies())
			return errOf(err, func() uint64 { return hct(out) })
		}},
	}
	return w
}

// --- mpbgv masked transform towards other parameters ------------------------------------------------------------

type c10BGVSwitchCtx struct {
	out   bgv.Parameters
	skOut *rlwe.SecretKey
}

func c10MPBGVSwitch(ctx *core.RunCtx, g *core.Xoshiro) *c10World {
	sc := c09BGV(ctx, false)
	cc := c09LastBGV
	bp := cc.params
	L := bp.MaxLevel()
	// output parameters: the same ring and plaintext modulus, a longer or shorter modulus chain
	extra := ctx.Ch.Draw("output-chain-delta", 3) - 1
	c := ctx.Cached(fmt.Sprintf("c10/bgvswitch/%x/%d", cc.hash, extra), func(*core.Xoshiro) any {
		logQ := []int{}
		for _, q := range bp.Q() {
			logQ = append(logQ, int(math.Round(math.Log2(float64(q)))))
		}
		switch extra {
		case 1:
			logQ = append(logQ, 45, 46)
		case -1:
			logQ = logQ[:len(logQ)-1]
		}
		p, err := bgv.NewParametersFromLiteral(bgv.ParametersLiteral{LogN: bp.LogN(), LogQ: logQ, LogP: []int{50}, PlaintextModulus: bp.PlaintextModulus()})
		if err != nil {
			return err
		}
		return &c10BGVSwitchCtx{p, rlwe.NewKeyGenerator(p).GenSecretKeyNew()}
	})
	sw, ok := c.(*c10BGVSwitchCtx)
	if !ok {
		ctx.Harness("output parameters: %v", c)
	}
	bpOut := sw.out
	LOut := bpOut.MaxLevel()
	ct := sc.fresh(g, L)
	noise := ring.DiscreteGaussian{Sigma: 8, Bound: 48}
	crsKey := make([]byte, 32)
	g.Fill(crsKey)
	crs, _ := sampling.NewKeyedPRNG(crsKey)
	mk := func() any {
		p, err := mpbgv.NewMaskedTransformProtocol(bp, bpOut, noise)
		if err != nil {
			ctx.Harness("masked transform: %v", err)
		}
		return &p
	}
	base := mk().(*mpbgv.MaskedTransformProtocol)
	crp := base.SampleCRP(LOut, crs)
	o := func(x any) *mpbgv.MaskedTransformProtocol { return x.(*mpbgv.MaskedTransformProtocol) }
	want := make([]uint64, bp.MaxSlots())
	_ = bgv.NewEncoder(bp).Decode(bgv.NewDecryptor(bp, cc.sk).DecryptNew(ct), want)
	w := &c10World{name: "mpbgv.MaskedTransform(other output parameters)", orig: base}
	w.copiers = []c10Copier{{"ShallowCopy", true, func(x any) any { c := o(x).ShallowCopy(); return &c }}}
	w.steps = []c10Step{
		{"GenShare", true, func(x any) (uint64, error) {
			s := o(x).AllocateShare(ct.Level(), LOut)
			if err := o(x).GenShare(cc.sk, sw.skOut, ct, crp, nil, &s); err != nil {
				return 0, err
			}
			return hashPoly(hashPoly(3, s.EncToShareShare.Value), s.ShareToEncShare.Value), nil
		}},
		{"single-party transform", false, func(x any) (uint64, error) {
			s := o(x).AllocateShare(ct.Level(), LOut)
			if err := o(x).GenShare(cc.sk, sw.skOut, ct, crp, nil, &s); err != nil {
				return 0, err
			}
			out := bgv.NewCiphertext(bpOut, 1, LOut)
			if err := o(x).Transform(ct.CopyNew(), nil, crp, s, out); err != nil {
				return 0, err
			}
			got := make([]uint64, bpOut.MaxSlots())
			if err := bgv.NewEncoder(bpOut).Decode(bgv.NewDecryptor(bpOut, sw.skOut).DecryptNew(out), got); err != nil {
				return 0, err
			}
			if hashOperand(got) != hashOperand(want) {
				return 0, fmt.Errorf("INVALID: the transform through this object does not preserve the message")
			}
			return hashOperand(got), nil
		}},
	}
	return w
}

// --- key generator -----------------------------------------------------------------------------------------

// keyGen is what the scenario uses of a key generator (the copy constructors of rlwe.KeyGenerator are those
// of the encryptor it embeds).
type keyGen interface {
	GenSecretKeyNew() *rlwe.SecretKey
	GenPublicKeyNew(sk *rlwe.SecretKey) *rlwe.PublicKey
	GenRelinearizationKeyNew(sk *rlwe.SecretKey, evkParams ...rlwe.EvaluationKeyParameters) *rlwe.RelinearizationKey
}

func c10KeyGenerator(ctx *core.RunCtx, g *core.Xoshiro) *c10World {
	params, _ := drawParams(ctx, catalog.SpecOpts{MinLogN: 5, MaxLogN: 7, MinQ: 2, MaxQ: 3, MinP: 1, MaxP: 2, MinBits: 30, MaxBits: 55})
	sk := rlwe.NewKeyGenerator(params).GenSecretKeyNew()
	B := big.NewInt(int64(params.NoiseBound()))
	mk := func() any { return rlwe.NewKeyGenerator(params) }
	kg := func(x any) (keyGen, error) {
		k, ok := x.(keyGen)
		if !ok {
			return nil, fmt.Errorf("INVALID: the object is a %T, which cannot generate keys", x)
		}
		return k, nil
	}
	w := &c10World{name: "rlwe.KeyGenerator", orig: mk(), fresh: mk}
	w.copiers = []c10Copier{
		{"ShallowCopy", true, func(x any) any {
			// the method set decides what ShallowCopy is: reached through reflection so that the scenario
			// compiles whatever type it returns
			m := reflect.ValueOf(x).MethodByName("ShallowCopy")
			if !m.IsValid() {
				return x
			}
			return m.Call(nil)[0].Interface()
		}},
	}
	w.steps = []c10Step{
		{"GenSecretKeyNew", true, func(x any) (uint64, error) {
			k, err := kg(x)
			if err != nil {
				return 0, err
			}
			s := k.GenSecretKeyNew()
			return hashQP(s.Value), nil
		}},
		{"GenPublicKeyNew", true, func(x any) (uint64, error) {
			k, err := kg(x)
			if err != nil {
				return 0, err
			}
			pk := k.GenPublicKeyNew(sk)
			gc := &rlwe.GadgetCiphertext{Value: [][]rlwe.VectorQP{{rlwe.VectorQP{pk.Value[0], pk.Value[1]}}}}
			if e, where := gadgetNoise(params, gc, params.RingQ().NewPoly(), sk.Value); e.Cmp(B) > 0 {
				return 0, fmt.Errorf("INVALID: the public key generated through this object is not a key of the secret (error %s at %s)", e.String(), where)
			}
			return hashQP(pk.Value[0]) ^ 3*hashQP(pk.Value[1]), nil
		}},
		{"GenRelinearizationKeyNew", true, func(x any) (uint64, error) {
			k, err := kg(x)
			if err != nil {
				return 0, err
			}
			rlk := k.GenRelinearizationKeyNew(sk)
			s2 := params.RingQ().NewPoly()
			params.RingQ().MulCoeffsMontgomery(sk.Value.Q, sk.Value.Q, s2)
			if e, where := gadgetNoise(params, &rlk.GadgetCiphertext, s2, sk.Value); e.Cmp(B) > 0 {
				return 0, fmt.Errorf("INVALID: the relinearization key generated through this object is not a key of the secret (error %s at %s)", e.String(), where)
			}
			return hashGadget(&rlk.GadgetCiphertext), nil
		}},
	}
	return w
}
