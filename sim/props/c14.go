package props

import (
	"fmt"
	"math/big"
	"math/bits"
	"reflect"
	"strings"

	"github.com/tuneinsight/lattigo/v6/core/rlwe"
	"github.com/tuneinsight/lattigo/v6/multiparty"
	"github.com/tuneinsight/lattigo/v6/ring"
	"github.com/tuneinsight/lattigo/v6/ring/ringqp"
	"github.com/tuneinsight/lattigo/v6/utils/sampling"

	"verifsim/catalog"
	"verifsim/core"
	"verifsim/simnet"
)

// C14: collective key generation (public key, relinearisation key, Galois
// keys, generic evaluation key) by N parties and a tree of aggregators on the
// simulated network, several protocol instances in flight at once.

type c14 struct{}

func (c14) ID() string { return "C14" }
func (c14) Runs(tier string) int {
	if tier == "thorough" {
		return 300000
	}
	return 1500
}
func (c14) Describe() core.Description {
	return core.Description{
		Level:  "exploration",
		Rule:   "per run: drawn parameters (LogN 4-7, 1-4 Q primes of unequal size, 0-2 P primes), N in 1..8 parties each with its own CRS reader and protocol objects (constructed or ShallowCopy), 1-3 aggregators in a tree, 2-5 concurrent protocol instances drawn from {collective public key, relinearisation key (two rounds), Galois key for a drawn element, generic evaluation key s->s'} each with drawn (LevelQ, LevelP, BaseTwoDecomposition); every share travels over the simulated transport (delay/reordering, duplication, by reference or serialized through a chunked stream), is aggregated in arrival order in a drawn aliasing form, and shares of evk/Galois instances are additionally mis-routed into other instances. Non-trivial = at least one transport fault fired and at least one key oracle evaluated; distinct = distinct choice traces",
		Real:   []string{"multiparty.PublicKeyGenProtocol / RelinearizationKeyGenProtocol / GaloisKeyGenProtocol / EvaluationKeyGenProtocol (SampleCRP, GenShare*, AggregateShares, Gen*Key, ShallowCopy)", "share serialization", "sampling.KeyedPRNG as CRS", "rlwe.KeyGenerator, Encryptor, Evaluator (ApplyEvaluationKey, Automorphism, Relinearize) using the collective keys", "ring/ringqp arithmetic as oracle substrate"},
		Stub:   []string{"network (simnet)", "aggregator bookkeeping (who is missing, duplicate suppression, mis-routed share handling)", "orchestrator announcing the instances", "entropy source (deterministic crypto/rand.Reader)"},
		Assume: []string{"all parties read the CRS with the same sequence of SampleCRP calls (the announced instance order)", "relinearisation-key noise is bounded by the protocol's own hard bound 3*w*N^2*B + N*B (w: largest 1-norm of a secret, the ring degree or the Hamming weight of sparse secrets) (it is inherently not N times the single-party bound)", "the functional key-switch oracle is evaluated only when its hard noise bound is below Q/4 at the ciphertext level (otherwise counted as budget-skipped)", "mis-routing is only injected into protocols whose AggregateShares can return an error (Galois, generic evaluation key)"},
	}
}

func init() { core.Register(c14{}) }

const (
	kCPK = iota
	kRKG
	kGKG
	kEVK
)

var c14KindNames = []string{"cpk", "rkg", "gkg", "evk"}

type c14Inst struct {
	id         int
	kind       int
	lq, lp, b2 int
	galEl      uint64
	ep         rlwe.EvaluationKeyParameters
	// recorded pristine shares per party and round (deep copies made at GenShare time)
	pristine [2][]any
	// results at the root
	rootAgg [2]any
	done    bool
}

func (in *c14Inst) String() string {
	s := fmt.Sprintf("#%d %s", in.id, c14KindNames[in.kind])
	if in.kind != kCPK {
		s += fmt.Sprintf("(lq=%d,lp=%d,b2=%d", in.lq, in.lp, in.b2)
		if in.kind == kGKG {
			s += fmt.Sprintf(",g=%d", in.galEl)
		}
		s += ")"
	}
	return s
}

type c14Protos struct {
	cpk multiparty.PublicKeyGenProtocol
	rkg multiparty.RelinearizationKeyGenProtocol
	gkg multiparty.GaloisKeyGenProtocol
	evk multiparty.EvaluationKeyGenProtocol
}

func newC14Protos(params rlwe.Parameters) *c14Protos {
	return &c14Protos{multiparty.NewPublicKeyGenProtocol(params), multiparty.NewRelinearizationKeyGenProtocol(params),
		multiparty.NewGaloisKeyGenProtocol(params), multiparty.NewEvaluationKeyGenProtocol(params)}
}

func (p *c14Protos) shallow() *c14Protos {
	return &c14Protos{p.cpk.ShallowCopy(), p.rkg.ShallowCopy(), p.gkg.ShallowCopy(), p.evk.ShallowCopy()}
}

type c14CRPs struct {
	cpk multiparty.PublicKeyGenCRP
	rkg multiparty.RelinearizationKeyGenCRP
	gkg multiparty.GaloisKeyGenCRP
	evk multiparty.EvaluationKeyGenCRP
}

type c14Run struct {
	ctx     *core.RunCtx
	params  rlwe.Parameters
	N       int
	insts   []*c14Inst
	parties []*c14Party
	aggs    []*c14Agg
	failed  bool
	serial  int // 0 never, 1 drawn per message, 2 always
	misNum  int
	rejects int
	dups    int
}

type c14Party struct {
	id     int
	run    *c14Run
	sk     *rlwe.SecretKey
	sk2    *rlwe.SecretKey // target secret of the generic evaluation key
	protos *c14Protos
	crps   []c14CRPs
	eph    map[int]*rlwe.SecretKey
	leaf   int // node id of its aggregator
}

type c14Agg struct {
	id       int
	run      *c14Run
	protos   *c14Protos
	parent   int // -1 for the root
	expect   int // number of children
	acc      map[[2]int]any
	got      map[[3]int]bool
	cnt      map[[2]int]int
	held     map[[2]int][]any // mis-routed shares that arrived before any genuine one
	children []int
}

type c14Share struct {
	round     int
	share     any
	misrouted bool
}

func (r *c14Run) fail(oracle, class, format string, args ...any) {
	r.failed = true
	r.ctx.Fail(oracle, class, format, args...)
}

// --- share helpers (per kind) -------------------------------------------------

func (r *c14Run) cloneShare(in *c14Inst, s any) any {
	switch v := s.(type) {
	case *multiparty.PublicKeyGenShare:
		return &multiparty.PublicKeyGenShare{Value: *v.Value.CopyNew()}
	case *multiparty.RelinearizationKeyGenShare:
		return &multiparty.RelinearizationKeyGenShare{GadgetCiphertext: *v.GadgetCiphertext.CopyNew()}
	case *multiparty.GaloisKeyGenShare:
		return &multiparty.GaloisKeyGenShare{GaloisElement: v.GaloisElement, EvaluationKeyGenShare: multiparty.EvaluationKeyGenShare{GadgetCiphertext: *v.GadgetCiphertext.CopyNew()}}
	case *multiparty.EvaluationKeyGenShare:
		return &multiparty.EvaluationKeyGenShare{GadgetCiphertext: *v.GadgetCiphertext.CopyNew()}
	}
	r.ctx.Harness("cloneShare: %T", s)
	return nil
}

func eqGadget(rqp ringqp.Ring, a, b *rlwe.GadgetCiphertext) (bool, string) {
	if a.BaseTwoDecomposition != b.BaseTwoDecomposition {
		return false, fmt.Sprintf("base-two decomposition %d vs %d", a.BaseTwoDecomposition, b.BaseTwoDecomposition)
	}
	if len(a.Value) != len(b.Value) {
		return false, "number of RNS digits"
	}
	for i := range a.Value {
		if len(a.Value[i]) != len(b.Value[i]) {
			return false, fmt.Sprintf("digit counts of row %d", i)
		}
		for j := range a.Value[i] {
			if len(a.Value[i][j]) != len(b.Value[i][j]) {
				return false, "degree"
			}
			for k := range a.Value[i][j] {
				if ok, w := eqQP(rqp, a.Value[i][j][k], b.Value[i][j][k]); !ok {
					return false, fmt.Sprintf("[%d][%d][%d] %s", i, j, k, w)
				}
			}
		}
	}
	return true, ""
}

func (r *c14Run) eqShare(a, b any) (bool, string) {
	rqp := *r.params.RingQP()
	switch x := a.(type) {
	case *multiparty.PublicKeyGenShare:
		return eqQP(rqp, x.Value, b.(*multiparty.PublicKeyGenShare).Value)
	case *multiparty.RelinearizationKeyGenShare:
		return eqGadget(rqp, &x.GadgetCiphertext, &b.(*multiparty.RelinearizationKeyGenShare).GadgetCiphertext)
	case *multiparty.GaloisKeyGenShare:
		y := b.(*multiparty.GaloisKeyGenShare)
		if x.GaloisElement != y.GaloisElement {
			return false, fmt.Sprintf("Galois element tag %d vs %d", x.GaloisElement, y.GaloisElement)
		}
		return eqGadget(rqp, &x.GadgetCiphertext, &y.GadgetCiphertext)
	case *multiparty.EvaluationKeyGenShare:
		return eqGadget(rqp, &x.GadgetCiphertext, &b.(*multiparty.EvaluationKeyGenShare).GadgetCiphertext)
	}
	return false, "unknown share type"
}

func (r *c14Run) allocShare(pr *c14Protos, in *c14Inst, round int) any {
	switch in.kind {
	case kCPK:
		s := pr.cpk.AllocateShare()
		return &s
	case kRKG:
		_, r1, r2 := pr.rkg.AllocateShare(in.ep)
		if round == 0 {
			return &r1
		}
		return &r2
	case kGKG:
		s := pr.gkg.AllocateShare(in.ep)
		return &s
	default:
		s := pr.evk.AllocateShare(in.ep)
		return &s
	}
}

// aggregate calls the library's AggregateShares with out aliasing per form:
// 0: out==a, 1: out==b, 2: fresh out. It returns the object holding the result.
func (r *c14Run) aggregate(pr *c14Protos, in *c14Inst, round int, a, b any, form int) (res any, err error) {
	var out any
	switch form {
	case 0:
		out = a
	case 1:
		out = b
	default:
		out = r.allocShare(pr, in, round)
	}
	switch x := a.(type) {
	case *multiparty.PublicKeyGenShare:
		pr.cpk.AggregateShares(*x, *b.(*multiparty.PublicKeyGenShare), out.(*multiparty.PublicKeyGenShare))
	case *multiparty.RelinearizationKeyGenShare:
		pr.rkg.AggregateShares(*x, *b.(*multiparty.RelinearizationKeyGenShare), out.(*multiparty.RelinearizationKeyGenShare))
	case *multiparty.GaloisKeyGenShare:
		err = pr.gkg.AggregateShares(*x, *b.(*multiparty.GaloisKeyGenShare), out.(*multiparty.GaloisKeyGenShare))
	case *multiparty.EvaluationKeyGenShare:
		err = pr.evk.AggregateShares(*x, *b.(*multiparty.EvaluationKeyGenShare), out.(*multiparty.EvaluationKeyGenShare))
	}
	return out, err
}

// send moves a share over the transport.
func (r *c14Run) send(net *simnet.Net, from, to int, in *c14Inst, round int, share any, kind string, misrouted bool) {
	ctx := r.ctx
	ser := r.serial == 2 || r.serial == 1 && ctx.Ch.Bool("serialize-this")
	payload := share
	if ser {
		var ok bool
		switch v := share.(type) {
		case *multiparty.PublicKeyGenShare:
			payload, ok = transit(ctx, v, new(multiparty.PublicKeyGenShare), true, "PublicKeyGenShare")
		case *multiparty.RelinearizationKeyGenShare:
			payload, ok = transit(ctx, v, new(multiparty.RelinearizationKeyGenShare), true, "RelinearizationKeyGenShare")
		case *multiparty.GaloisKeyGenShare:
			payload, ok = transit(ctx, v, new(multiparty.GaloisKeyGenShare), true, "GaloisKeyGenShare")
		case *multiparty.EvaluationKeyGenShare:
			payload, ok = transit(ctx, v, new(multiparty.EvaluationKeyGenShare), true, "EvaluationKeyGenShare")
		}
		if !ok {
			r.failed = true
			return
		}
	}
	net.Send(&simnet.Msg{From: from, To: to, Kind: kind, Inst: in.id, Payload: &c14Share{round: round, share: payload, misrouted: misrouted}})
}

// --- party --------------------------------------------------------------------

func (p *c14Party) genShare(in *c14Inst, round int, r1agg any) any {
	r := p.run
	pr := p.protos
	crp := &p.crps[in.id]
	// the receiver of a share is newly allocated or a recycled one that still holds an older share
	dirty := r.ctx.Ch.Chance("recycled-share-receiver", 1, 3)
	var dg *core.Xoshiro
	if dirty {
		dg = core.NewXoshiro(uint64(r.ctx.Ch.Draw("recycled-content", 1<<16)))
		r.ctx.Count("fault.recycled-share-receiver", 1)
	}
	rqp := *r.params.RingQP()
	fillG := func(gc *rlwe.GadgetCiphertext) {
		if !dirty {
			return
		}
		lr := rqp.AtLevel(gc.LevelQ(), gc.LevelP())
		for i := range gc.Value {
			for j := range gc.Value[i] {
				for k := range gc.Value[i][j] {
					catalog.FillPolyQP(lr, gc.Value[i][j][k], dg)
				}
			}
		}
	}
	switch in.kind {
	case kCPK:
		s := pr.cpk.AllocateShare()
		if dirty {
			catalog.FillPolyQP(rqp, s.Value, dg)
		}
		pr.cpk.GenShare(p.sk, crp.cpk, &s)
		return &s
	case kRKG:
		eph, r1, r2 := pr.rkg.AllocateShare(in.ep)
		if round == 0 {
			fillG(&r1.GadgetCiphertext)
			pr.rkg.GenShareRoundOne(p.sk, crp.rkg, eph, &r1)
			p.eph[in.id] = eph
			return &r1
		}
		fillG(&r2.GadgetCiphertext)
		// the ephemeral secret and the round-one aggregate are inputs of round two: a party that has to produce
		// its share again (a lost message, another receiver) calls it again with them
		ephBefore, aggBefore := hashQP(p.eph[in.id].Value), hashGadget(&r1agg.(*multiparty.RelinearizationKeyGenShare).GadgetCiphertext)
		pr.rkg.GenShareRoundTwo(p.eph[in.id], p.sk, *r1agg.(*multiparty.RelinearizationKeyGenShare), &r2)
		r.ctx.Count("oracle.round-two-inputs-intact", 1)
		if hashQP(p.eph[in.id].Value) != ephBefore || hashGadget(&r1agg.(*multiparty.RelinearizationKeyGenShare).GadgetCiphertext) != aggBefore {
			r.fail("inputs", "rkg.GenShareRoundTwo|input-modified", "GenShareRoundTwo modified its ephemeral secret or the round-one aggregate it was given: the share cannot be produced a second time")
			return nil
		}
		return &r2
	case kGKG:
		s := pr.gkg.AllocateShare(in.ep)
		fillG(&s.GadgetCiphertext)
		if dirty {
			s.GaloisElement = 12345
		}
		if err := pr.gkg.GenShare(p.sk, in.galEl, crp.gkg, &s); err != nil {
			r.fail("protocol", "gkg.GenShare|error", "GaloisKeyGenProtocol.GenShare failed on valid inputs (%s): %v", in, err)
			return nil
		}
		return &s
	default:
		s := pr.evk.AllocateShare(in.ep)
		fillG(&s.GadgetCiphertext)
		if err := pr.evk.GenShare(p.sk, p.sk2, crp.evk, &s); err != nil {
			r.fail("protocol", "evk.GenShare|error", "EvaluationKeyGenProtocol.GenShare failed on valid inputs (%s): %v", in, err)
			return nil
		}
		return &s
	}
}

func (p *c14Party) Deliver(net *simnet.Net, m *simnet.Msg) {
	r := p.run
	if r.failed {
		return
	}
	in := r.insts[m.Inst]
	ctx := r.ctx
	round := 0
	var r1agg any
	if m.Kind == "rkg-round1-aggregate" {
		round = 1
		r1agg = m.Payload.(*c14Share).share
	}
	if in.pristine[round][p.id] != nil {
		return // duplicate start / duplicate broadcast
	}
	skBefore := hashQP(p.sk.Value)
	var share any
	pk, site, msg := core.Protect(func() { share = p.genShare(in, round, r1agg) })
	if pk {
		r.fail("panic", c14KindNames[in.kind]+".GenShare", "GenShare of %s (round %d) panicked in %s: %s", in, round, site, msg)
		return
	}
	if r.failed || share == nil {
		return
	}
	if hashQP(p.sk.Value) != skBefore {
		r.fail("inputs", c14KindNames[in.kind]+".GenShare|secret-modified", "GenShare modified the party's secret key")
		return
	}
	in.pristine[round][p.id] = r.cloneShare(in, share)
	r.send(net, p.id, p.leaf, in, round, share, "share", false)
	// mis-route an extra copy into another error-checking instance with different parameters
	if (in.kind == kGKG || in.kind == kEVK) && r.misNum > 0 && ctx.Ch.Chance("misroute", r.misNum, 10) {
		var cands []*c14Inst
		for _, o := range r.insts {
			if o.id != in.id && o.kind == in.kind && (o.lq != in.lq || o.lp != in.lp || o.b2 != in.b2 || o.galEl != in.galEl) {
				cands = append(cands, o)
			}
		}
		if len(cands) > 0 {
			o := cands[ctx.Ch.Draw("misroute-to", len(cands))]
			ctx.Count("fault.share-misrouted", 1)
			ctx.Event("t=%d party %d: share of %s mis-routed into %s", net.Now(), p.id, in, o)
			r.send(net, p.id, p.leaf, o, 0, r.cloneShare(in, share), "share", true)
		}
	}
}

// --- aggregator -----------------------------------------------------------------

func (a *c14Agg) Deliver(net *simnet.Net, m *simnet.Msg) {
	r := a.run
	if r.failed {
		return
	}
	ctx := r.ctx
	in := r.insts[m.Inst]
	sh := m.Payload.(*c14Share)
	key := [2]int{in.id, sh.round}
	if sh.misrouted {
		if a.acc[key] == nil {
			a.held[key] = append(a.held[key], sh.share)
			return
		}
		a.tryMisrouted(in, sh.round, sh.share)
		return
	}
	gk := [3]int{in.id, sh.round, m.From}
	if a.got[gk] {
		r.dups++
		return
	}
	a.got[gk] = true
	a.cnt[key]++
	if a.acc[key] == nil {
		if ctx.Ch.Bool("acc-by-reference") {
			a.acc[key] = sh.share
		} else {
			a.acc[key] = r.cloneShare(in, sh.share)
		}
		for _, h := range a.held[key] {
			a.tryMisrouted(in, sh.round, h)
		}
		a.held[key] = nil
	} else {
		form := ctx.Ch.Draw("agg-form", 3)
		var res any
		var err error
		b := sh.share
		pk, site, msg := core.Protect(func() {
			if form == 1 {
				// out aliases the second operand: the incoming share becomes the accumulator
				res, err = r.aggregate(a.protos, in, sh.round, a.acc[key], b, 1)
			} else {
				res, err = r.aggregate(a.protos, in, sh.round, a.acc[key], b, form)
			}
		})
		if pk {
			r.fail("panic", c14KindNames[in.kind]+".AggregateShares", "AggregateShares of %s panicked in %s: %s", in, site, msg)
			return
		}
		if err != nil {
			r.fail("aggregate", c14KindNames[in.kind]+".AggregateShares|error", "aggregating two genuine shares of %s failed: %v", in, err)
			return
		}
		if form == 1 {
			ctx.Count("probe.aggregate-out-aliases-second-operand", 1)
		}
		a.acc[key] = res
	}
	if a.cnt[key] == a.expect {
		a.complete(net, in, sh.round)
	}
}

// tryMisrouted feeds a share of another instance to AggregateShares: it must be rejected.
func (a *c14Agg) tryMisrouted(in *c14Inst, round int, foreign any) {
	r := a.run
	ctx := r.ctx
	key := [2]int{in.id, round}
	form := ctx.Ch.Draw("misrouted-agg-form", 2) * 2 // out==acc or fresh
	// the aggregator's accumulator is the first or the second operand (both orders occur in callers)
	swapped := ctx.Ch.Bool("misrouted-operand-order")
	before := core.NewSweep().FootprintOf(a.acc[key]).Hash
	var err error
	pk, site, msg := core.Protect(func() {
		if swapped {
			if form == 0 {
				form = 1
			}
			_, err = r.aggregate(a.protos, in, round, foreign, a.acc[key], form)
		} else {
			_, err = r.aggregate(a.protos, in, round, a.acc[key], foreign, form)
		}
	})
	ctx.Count("oracle.mismatched-share-rejected", 1)
	if !pk && err != nil && core.NewSweep().FootprintOf(a.acc[key]).Hash != before {
		// "rejected rather than combined": the refusal leaves the accumulator as it was, the genuine shares that
		// follow are aggregated into it
		r.fail("mismatch", c14KindNames[in.kind]+".AggregateShares|refusal-changed-the-accumulator", "aggregating a share of another instance into %s was refused with an error, and the accumulator (out %s) is not what it was before the call", in, map[bool]string{true: "is the second operand", false: "is the first operand or distinct"}[swapped])
		return
	}
	if pk {
		r.fail("mismatch", c14KindNames[in.kind]+".AggregateShares|panic", "aggregating a share of another instance into %s panicked in %s: %s", in, site, msg)
		return
	}
	if err == nil {
		r.fail("mismatch", c14KindNames[in.kind]+".AggregateShares|combined", "a share with different parameters was combined into %s without an error", in)
		return
	}
	r.rejects++
}

func (a *c14Agg) complete(net *simnet.Net, in *c14Inst, round int) {
	r := a.run
	key := [2]int{in.id, round}
	if a.parent >= 0 {
		r.send(net, a.id, a.parent, in, round, a.acc[key], "partial-aggregate", false)
		return
	}
	in.rootAgg[round] = a.acc[key]
	r.ctx.Event("t=%d root: %s round %d aggregated", net.Now(), in, round)
	if in.kind == kRKG && round == 0 {
		// broadcast the aggregated round-one share to every party
		for _, p := range r.parties {
			r.send(net, a.id, p.id, in, 0, r.cloneShare(in, a.acc[key]), "rkg-round1-aggregate", false)
		}
		return
	}
	in.done = true
}

// c14InternalSharing walks x and reports two []uint64 that start at the same address.
func c14InternalSharing(v reflect.Value, path string, seen map[uintptr]string, depth int) string {
	if depth > 12 || !v.IsValid() {
		return ""
	}
	switch v.Kind() {
	case reflect.Ptr, reflect.Interface:
		if !v.IsNil() {
			return c14InternalSharing(v.Elem(), path, seen, depth+1)
		}
	case reflect.Struct:
		for i := 0; i < v.NumField(); i++ {
			if v.Type().Field(i).Name == "Buff" {
				continue // the backing array that the rows of one polynomial are views of
			}
			if w := c14InternalSharing(v.Field(i), path+"."+v.Type().Field(i).Name, seen, depth+1); w != "" {
				return w
			}
		}
	case reflect.Slice, reflect.Array:
		if v.Kind() == reflect.Slice && v.Type().Elem().Kind() == reflect.Uint64 {
			if v.Len() > 0 {
				a := v.Pointer()
				if p, ok := seen[a]; ok {
					return p + " and " + path
				}
				seen[a] = path
			}
			return ""
		}
		for i := 0; i < v.Len(); i++ {
			if w := c14InternalSharing(v.Index(i), fmt.Sprintf("%s[%d]", path, i), seen, depth+1); w != "" {
				return w
			}
		}
	}
	return ""
}

// --- run ------------------------------------------------------------------------

func (c14) Run(ctx *core.RunCtx) {
	ch := ctx.Ch
	params, spec := drawParams(ctx, catalog.SpecOpts{MinLogN: 4, MaxLogN: 7, MinQ: 1, MaxQ: 4, MinP: 0, MaxP: 2, MinBits: 25, MaxBits: 60, ConjInvOneIn: 4})
	if params.RingType() == ring.ConjugateInvariant {
		ctx.Count("probe.conjugate-invariant-ring", 1)
	}
	// chains that start with a prime of 60 bits and go on with small ones (the margins of lazily reduced sums are
	// those of the largest prime in use, not of the prime at the level), with keys of many narrow digits
	steep := ch.Chance("steep-modulus-chain", 1, 6)
	if steep {
		sp := spec
		sp.LogQ = []int{60, 30 + ch.Draw("steep-q1", 7), 30 + ch.Draw("steep-q2", 7)}
		if len(sp.LogP) > 1 {
			sp.LogP = sp.LogP[:1]
		}
		c := ctx.Cached(sp.Key(), func(*core.Xoshiro) any {
			pp, err := sp.Build()
			if err != nil {
				return err
			}
			return &pp
		})
		if pp, ok := c.(*rlwe.Parameters); ok {
			params, spec = *pp, sp
			ctx.Count("probe.steep-modulus-chain", 1)
		} else {
			steep = false
		}
	}
	// the error distribution of the parameters is not always the default one (every protocol object, also one
	// obtained by ShallowCopy, samples with it; the noise bounds below are derived from it)
	// ... nor the secret distribution: one run in three has sparse secrets (1 to 3 non-zero coefficients), which
	// the ephemeral secrets of the relinearization protocol follow (the bound of its noise is then the sparse one)
	hs := 0
	if ch.Chance("sparse-secrets", 1, 3) {
		hs = 1 + ch.Draw("secret-weight", 3)
	}
	if xi := ch.Draw("error-distribution", 4); xi > 0 || hs > 0 {
		xe := []ring.DiscreteGaussian{rlwe.DefaultXe, {Sigma: 0.5, Bound: 2}, {Sigma: 1, Bound: 4}, {Sigma: 6.4, Bound: 38.4}}[xi]
		var xs ring.DistributionParameters = rlwe.DefaultXs
		if hs > 0 {
			xs = ring.Ternary{H: hs}
			ctx.Count("probe.sparse-secret-distribution", 1)
		}
		base := params
		c := ctx.Cached(fmt.Sprintf("%s/xe%d/h%d", spec.Key(), xi, hs), func(*core.Xoshiro) any {
			pp, err := rlwe.NewParametersFromLiteral(rlwe.ParametersLiteral{LogN: base.LogN(), Q: base.Q(), P: base.P(), Xe: xe, Xs: xs, RingType: base.RingType(), NTTFlag: base.NTTFlag()})
			if err != nil {
				return err
			}
			return &pp
		})
		if pp, ok := c.(*rlwe.Parameters); ok {
			params = *pp
			ctx.Count("probe.non-default-error-distribution", 1)
		}
	}
	N := 1 + ch.Draw("N", 8)
	r := &c14Run{ctx: ctx, params: params, N: N}
	r.serial = ch.Draw("serialize-mode", 3)
	r.misNum = ch.Draw("misroute-rate", 4)
	// instances
	ninst := 2 + ch.Draw("ninst", 4)
	for i := 0; i < ninst; i++ {
		in := &c14Inst{id: i, kind: ch.Weighted("kind", []int{2, 3, 4, 4})}
		in.lq = ch.Draw("levelQ", params.MaxLevelQ()+1)
		in.lp = params.MaxLevelP()
		if in.lp >= 0 {
			in.lp = ch.Draw("levelP", in.lp+1)
		}
		if ch.Bool("base2") {
			in.b2 = 1 + ch.Draw("base2-val", 30)
		}
		if steep && ch.Chance("narrow-digits", 3, 4) {
			// many narrow digits, at a level above the first prime
			in.b2 = 4 + ch.Draw("narrow-digit-bits", 5)
			if in.lq == 0 && params.MaxLevelQ() > 0 {
				in.lq = 1 + ch.Draw("steep-levelQ", params.MaxLevelQ())
			}
		}
		if in.kind == kCPK {
			in.lq, in.lp, in.b2 = params.MaxLevelQ(), params.MaxLevelP(), 0
		}
		if in.kind == kGKG {
			switch ch.Draw("galel-kind", 3) {
			case 0:
				in.galEl = params.GaloisElement(1 + ch.Draw("rot", 2*params.N()))
			case 1:
				if params.RingType() == ring.ConjugateInvariant {
					// the conjugation is not an automorphism of this ring (documented: the library panics)
					in.galEl = params.GaloisElement(1 + ch.Draw("rot", 2*params.N()))
				} else {
					in.galEl = params.GaloisElementOrderTwoOrthogonalSubgroup()
				}
			default:
				in.galEl = params.GaloisElement(-1 - ch.Draw("rot-neg", 8))
			}
		}
		lq, lp, b2 := in.lq, in.lp, in.b2
		in.ep = rlwe.EvaluationKeyParameters{LevelQ: &lq, LevelP: &lp, BaseTwoDecomposition: &b2}
		in.pristine[0] = make([]any, N)
		in.pristine[1] = make([]any, N)
		r.insts = append(r.insts, in)
	}
	desc := ""
	for _, in := range r.insts {
		desc += " " + in.String()
	}
	ctx.Event("config %s N=%d instances:%s", spec, N, desc)

	kgen := rlwe.NewKeyGenerator(params)
	crsKey := make([]byte, 32)
	core.NewXoshiro(uint64(ch.Draw("crs-key", 1<<20))).Fill(crsKey)
	proto := newC14Protos(params)
	sampleCRPs := func(pr *c14Protos) []c14CRPs {
		crs, _ := sampling.NewKeyedPRNG(crsKey)
		out := make([]c14CRPs, len(r.insts))
		for _, in := range r.insts {
			switch in.kind {
			case kCPK:
				out[in.id].cpk = pr.cpk.SampleCRP(crs)
			case kRKG:
				out[in.id].rkg = pr.rkg.SampleCRP(crs, in.ep)
			case kGKG:
				out[in.id].gkg = pr.gkg.SampleCRP(crs, in.ep)
			default:
				out[in.id].evk = pr.evk.SampleCRP(crs, in.ep)
			}
		}
		return out
	}
	// aggregators: node ids N.. ; aggs[0] is the root
	nagg := 1 + ch.Draw("aggregators", 3)
	if nagg > 1 && N < 2 {
		nagg = 1
	}
	net := simnet.New(ctx, simnet.Config{MaxDelay: []int{0, 5, 60}[ch.Draw("max-delay", 3)], DupNum: ch.Draw("dup-rate", 3), DupDen: 12})
	net.Max = 20000
	for k := 0; k < nagg; k++ {
		a := &c14Agg{id: N + k, run: r, protos: newC14Protos(params), parent: -1, acc: map[[2]int]any{}, got: map[[3]int]bool{}, cnt: map[[2]int]int{}, held: map[[2]int][]any{}}
		if k > 0 {
			a.parent = N
		}
		r.aggs = append(r.aggs, a)
		net.Nodes[a.id] = a
	}
	var panicSite string
	pk, site, msg := core.Protect(func() {
		for i := 0; i < N; i++ {
			p := &c14Party{id: i, run: r, sk: kgen.GenSecretKeyNew(), sk2: kgen.GenSecretKeyNew(), eph: map[int]*rlwe.SecretKey{}}
			if ch.Bool("protocol-by-shallowcopy") {
				p.protos = proto.shallow()
				ctx.Count("probe.party-protocol-is-shallowcopy", 1)
			} else {
				p.protos = newC14Protos(params)
			}
			p.crps = sampleCRPs(p.protos)
			if i == 0 {
				// the reference polynomials are as many independent reads of the common string as the key has
				// entries: no two of them are one array
				for _, c := range p.crps {
					if w := c14InternalSharing(reflect.ValueOf(c), "", map[uintptr]string{}, 0); w != "" {
						panicSite = "crp-sharing: " + w
						return
					}
				}
				ctx.Count("oracle.reference-polynomials-distinct", 1)
			}
			// leaf assignment: with several aggregators parties are spread over the non-root ones,
			// a drawn share of them reports directly to the root (skewed tree)
			p.leaf = N
			if nagg > 1 {
				p.leaf = N + ch.Draw("leaf", nagg)
			}
			r.parties = append(r.parties, p)
			net.Nodes[i] = p
		}
	})
	if pk {
		panicSite = site
		ctx.Fail("panic", "setup|"+panicSite, "creating parties / sampling CRPs panicked in %s: %s", site, msg)
		return
	}
	if strings.HasPrefix(panicSite, "crp-sharing: ") {
		ctx.Fail("crp", "SampleCRP|entries-share-storage", "two reference polynomials of one key are the same array (%s): they are one read of the common string, not two", strings.TrimPrefix(panicSite, "crp-sharing: "))
		return
	}
	for _, a := range r.aggs {
		for _, p := range r.parties {
			if p.leaf == a.id {
				a.expect++
			}
		}
	}
	for _, a := range r.aggs[1:] {
		if a.expect > 0 {
			r.aggs[0].expect++
		}
	}
	// oracle 1: CRS agreement (every party, and the finalising root)
	rootCRPs := sampleCRPs(r.aggs[0].protos)
	ctx.Count("oracle.crs-agreement", 1)
	rqp := *params.RingQP()
	for _, p := range r.parties {
		for _, in := range r.insts {
			var ok bool
			var w string
			switch in.kind {
			case kCPK:
				ok, w = bitEqQP(p.crps[in.id].cpk.Value, rootCRPs[in.id].cpk.Value)
			case kRKG:
				ok, w = bitEqMatrix(p.crps[in.id].rkg.Value, rootCRPs[in.id].rkg.Value)
			case kGKG:
				ok, w = bitEqMatrix(p.crps[in.id].gkg.Value, rootCRPs[in.id].gkg.Value)
			default:
				ok, w = bitEqMatrix(p.crps[in.id].evk.Value, rootCRPs[in.id].evk.Value)
			}
			if !ok {
				ctx.Fail("crs", c14KindNames[in.kind]+"|crp-differs", "party %d and the root read different reference polynomials for %s from the same CRS with the same calls: %s", p.id, in, w)
				return
			}
		}
	}
	// orchestrator: announce every instance to every party
	for _, in := range r.insts {
		for _, p := range r.parties {
			net.Send(&simnet.Msg{From: -1, To: p.id, Kind: "start", Inst: in.id})
		}
	}
	if !net.Run() {
		ctx.Fail("liveness", "event-budget", "the protocols did not quiesce within %d events", net.Max)
		return
	}
	if r.failed {
		return
	}
	ideal := make([]*rlwe.SecretKey, N)
	ideal2 := make([]*rlwe.SecretKey, N)
	for i, p := range r.parties {
		ideal[i], ideal2[i] = p.sk, p.sk2
	}
	s, s2 := addSK(params, ideal), addSK(params, ideal2)
	B := int64(params.NoiseBound())
	if B < 1 {
		B = 1
	}
	faults := ctx.Stats["fault.delay-reorder"] + ctx.Stats["fault.duplicate-delivery"] + ctx.Stats["fault.share-serialized-in-transit"] + ctx.Stats["fault.share-misrouted"]
	ref := newC14Protos(params)
	for _, in := range r.insts {
		// liveness after the faults stopped
		if !in.done {
			ctx.Fail("liveness", c14KindNames[in.kind]+"|not-terminated", "%s did not terminate although every message was delivered", in)
			return
		}
		// the relinearization protocol's AggregateShares has no error result: a share made for another
		// decomposition (an instance with other parameters) is either added or runs out of range
		if in.kind == kRKG && ch.Chance("rkg-foreign-share", 1, 3) {
			b2x := in.b2 + 3
			if in.b2 >= 20 {
				b2x = in.b2 - 7
			}
			lq, lp := in.lq, in.lp
			epx := rlwe.EvaluationKeyParameters{LevelQ: &lq, LevelP: &lp, BaseTwoDecomposition: &b2x}
			_, foreign, _ := ref.rkg.AllocateShare(epx)
			_, out, _ := ref.rkg.AllocateShare(in.ep)
			genuine := r.cloneShare(in, in.pristine[0][0]).(*multiparty.RelinearizationKeyGenShare)
			pk, _, _ := core.Protect(func() { ref.rkg.AggregateShares(*genuine, foreign, &out) })
			ctx.Count("oracle.mismatched-share-rejected", 1)
			if !pk {
				ctx.Fail("mismatch", "rkg.AggregateShares|combined", "a round-one share allocated for base-two decomposition %d was added to a share of %s: the method has no way to refuse it", b2x, in)
			}
		}
		// oracle 2: the aggregate equals the index-order aggregate with fresh outputs
		rounds := 1
		if in.kind == kRKG {
			rounds = 2
		}
		for rd := 0; rd < rounds; rd++ {
			var acc any = r.cloneShare(in, in.pristine[rd][0])
			for i := 1; i < N; i++ {
				res, err := r.aggregate(ref, in, rd, acc, in.pristine[rd][i], 2)
				if err != nil {
					// genuine shares of one instance, a new protocol object, new outputs: this must work
					ctx.Fail("aggregate", c14KindNames[in.kind]+".AggregateShares|error", "aggregating the genuine shares of %s in index order into new outputs failed: %v", in, err)
					return
				}
				acc = res
			}
			ctx.Count("oracle.aggregate-order-independence", 1)
			if ok, w := r.eqShare(acc, in.rootAgg[rd]); !ok {
				ctx.Fail("aggregate", c14KindNames[in.kind]+"|order-dependence", "%s round %d: the aggregate obtained over the network differs from the index-order aggregate of the same shares: %s", in, rd, w)
				return
			}
		}
		if !r.checkKey(in, rootCRPs, s, s2, B, kgen) {
			return
		}
	}
	_ = rqp
	if faults > 0 {
		ctx.Nontrivial = true
	}
}

func bitEqQP(a, b ringqp.Poly) (bool, string) {
	if !a.Equal(&b) {
		return false, "polynomials differ"
	}
	return true, ""
}

func bitEqMatrix(a, b [][]ringqp.Poly) (bool, string) {
	if len(a) != len(b) {
		return false, "row count"
	}
	for i := range a {
		if len(a[i]) != len(b[i]) {
			return false, "column count"
		}
		for j := range a[i] {
			if !a[i][j].Equal(&b[i][j]) {
				return false, fmt.Sprintf("[%d][%d] differs", i, j)
			}
		}
	}
	return true, ""
}

// checkKey finalises the key at the root and evaluates the ideal-functionality oracles.
func (r *c14Run) checkKey(in *c14Inst, crps []c14CRPs, s, s2 *rlwe.SecretKey, B int64, kgen *rlwe.KeyGenerator) bool {
	ctx := r.ctx
	ch := ctx.Ch
	params := r.params
	N := int64(r.N)
	nRing := int64(params.N())
	root := r.aggs[0].protos
	kn := c14KindNames[in.kind]
	ringQ := params.RingQ()
	Qtop := func(level int) *big.Int { return ringQ.ModulusAtLevel[level] }
	switch in.kind {
	case kCPK:
		pk := rlwe.NewPublicKey(params)
		aggBefore := hashQP(in.rootAgg[0].(*multiparty.PublicKeyGenShare).Value)
		p, site, msg := core.Protect(func() { root.cpk.GenPublicKey(*in.rootAgg[0].(*multiparty.PublicKeyGenShare), crps[in.id].cpk, pk) })
		if p {
			ctx.Fail("panic", "cpk.GenPublicKey", "GenPublicKey panicked in %s: %s", site, msg)
			return false
		}
		// row noise: b + a*s = e, |e| <= N*B
		g := &rlwe.GadgetCiphertext{Value: [][]rlwe.VectorQP{{rlwe.VectorQP{pk.Value[0], pk.Value[1]}}}}
		zero := ringQ.NewPoly()
		e, where := gadgetNoise(params, g, zero, s.Value)
		ctx.Count("oracle.key-noise", 1)
		ctx.Event("%s noise=%s bound=%d", in, e.String(), N*B)
		if e.Cmp(big.NewInt(N*B)) > 0 {
			ctx.Fail("noise", "cpk|row-noise", "collective public key of %d parties: b + a*s has inf-norm %s > N*B = %d (%s)", N, e.String(), N*B, where)
			return false
		}
		// the key must stay what it is when the accumulator is reused afterwards
		snap := hashQP(pk.Value[0])
		catalog.FillPolyQP(*params.RingQP(), in.rootAgg[0].(*multiparty.PublicKeyGenShare).Value, core.NewXoshiro(99))
		if hashQP(pk.Value[0]) != snap {
			ctx.Fail("aliasing", "cpk|key-aliases-share", "the generated public key shares memory with the aggregated share: reusing the share buffer rewrote the key")
			return false
		}
		_ = aggBefore
		// functional: encrypt zero under the collective key, decrypt with the ideal secret
		level := ch.Draw("enc-level", params.MaxLevelQ()+1)
		var ct *rlwe.Ciphertext
		p, site, msg = core.Protect(func() { ct = rlwe.NewEncryptor(params, pk).EncryptZeroNew(level) })
		if p {
			ctx.Fail("panic", "cpk|encrypt", "encrypting with the collective public key panicked in %s: %s", site, msg)
			return false
		}
		raw := decryptRaw(params, ct, s)
		bound := big.NewInt(2*nRing*N*B + B + 4*nRing*N + 8)
		ctx.Count("oracle.key-functional", 1)
		zeroV := make([]*big.Int, len(raw))
		for i := range zeroV {
			zeroV[i] = new(big.Int)
		}
		if m := maxAbsDiff(raw, zeroV, Qtop(level)); m.Cmp(bound) > 0 {
			if new(big.Int).Lsh(bound, 2).Cmp(Qtop(level)) < 0 {
				ctx.Fail("functional", "cpk|encryption-noise", "an encryption of zero under the collective key decrypts under the ideal secret to noise %s > hard bound %s", m.String(), bound.String())
				return false
			}
			ctx.Count("probe.functional-oracle-budget-skipped", 1)
		}
		return true
	}
	// gadget keys
	var g *rlwe.GadgetCiphertext
	var skIn ring.Poly
	var skOut ringqp.Poly
	E := big.NewInt(N * B)
	var evk *rlwe.EvaluationKey
	var gk *rlwe.GaloisKey
	var rlk *rlwe.RelinearizationKey
	var err error
	// a key object allocated for another decomposition than the shares' (a receiver left from another instance)
	// is refused, not filled: the result would announce its own decomposition and hold the rows of the other
	if in.kind != kRKG && ch.Chance("finalise-into-other-decomposition", 1, 4) {
		b2x := in.b2 + 5
		if in.b2 >= 16 {
			b2x = 0
		}
		lq, lp := in.lq, in.lp
		epx := rlwe.EvaluationKeyParameters{LevelQ: &lq, LevelP: &lp, BaseTwoDecomposition: &b2x}
		var ferr error
		pk, _, _ := core.Protect(func() {
			if in.kind == kGKG {
				ferr = root.gkg.GenGaloisKey(*in.rootAgg[0].(*multiparty.GaloisKeyGenShare), crps[in.id].gkg, rlwe.NewGaloisKey(params, epx))
			} else {
				ferr = root.evk.GenEvaluationKey(*in.rootAgg[0].(*multiparty.EvaluationKeyGenShare), crps[in.id].evk, rlwe.NewEvaluationKey(params, epx))
			}
		})
		ctx.Count("oracle.mismatched-key-receiver-rejected", 1)
		if !pk && ferr == nil {
			ctx.Fail("mismatch", kn+".finalize|other-decomposition-accepted", "the aggregated shares of %s were written into a key allocated with base-two decomposition %d without an error", in, b2x)
			return false
		}
	}
	// what the finalisation is given stays as it was and stays the caller's: the aggregates (they are finalised
	// again after a retry, for another recipient, or accumulated further), the reference polynomials
	finIn := []any{in.rootAgg[0]}
	if in.kind == kRKG {
		finIn = append(finIn, in.rootAgg[1])
	}
	finBefore := make([]uint64, len(finIn))
	for i, x := range finIn {
		finBefore[i] = core.NewSweep().FootprintOf(x).Hash
	}
	pnk, site, msg := core.Protect(func() {
		switch in.kind {
		case kRKG:
			rlk = rlwe.NewRelinearizationKey(params, in.ep)
			root.rkg.GenRelinearizationKey(*in.rootAgg[0].(*multiparty.RelinearizationKeyGenShare), *in.rootAgg[1].(*multiparty.RelinearizationKeyGenShare), rlk)
			g = &rlk.GadgetCiphertext
		case kGKG:
			gk = rlwe.NewGaloisKey(params, in.ep)
			err = root.gkg.GenGaloisKey(*in.rootAgg[0].(*multiparty.GaloisKeyGenShare), crps[in.id].gkg, gk)
			g = &gk.GadgetCiphertext
		default:
			evk = rlwe.NewEvaluationKey(params, in.ep)
			err = root.evk.GenEvaluationKey(*in.rootAgg[0].(*multiparty.EvaluationKeyGenShare), crps[in.id].evk, evk)
			g = &evk.GadgetCiphertext
		}
	})
	if pnk {
		ctx.Fail("panic", kn+".finalize", "generating the key of %s from the aggregated shares panicked in %s: %s (digit counts per row %v)", in, site, msg, params.BaseTwoDecompositionVectorSize(in.lq, in.lp, in.b2)[:params.BaseRNSDecompositionVectorSize(in.lq, in.lp)])
		return false
	}
	if err != nil {
		ctx.Fail("protocol", kn+".finalize|error", "generating the key of %s failed: %v", in, err)
		return false
	}
	ctx.Count("oracle.finalisation-inputs-intact", 1)
	for i, x := range finIn {
		if core.NewSweep().FootprintOf(x).Hash != finBefore[i] {
			ctx.Fail("inputs", kn+".finalize|aggregate-modified", "generating the key of %s changed the aggregate of round %d it was given: a second finalisation from the same aggregate gives another key", in, i)
			return false
		}
		if shared, where := sharedBacking(g, x); shared {
			ctx.Fail("aliasing", kn+".finalize|key-shares-storage-with-the-aggregate", "the key of %s shares storage with the aggregate of round %d it was made from (%s): accumulating into that share object again changes the key", in, i, where)
			return false
		}
	}
	rq := ringQ.AtLevel(params.MaxLevelQ())
	switch in.kind {
	case kRKG:
		skIn = rq.NewPoly()
		rq.MulCoeffsMontgomery(s.Value.Q, s.Value.Q, skIn)
		skOut = s.Value
		// noise of the two-round protocol: sum_i s_i*e0 + sum_i e2_i + sum_i (u_i - s_i)*e1, with e0 and e1 sums of
		// N errors (at most B each) and s_i, u_i secrets of the parameters' distribution (1-norm at most w, that of
		// a difference at most 2w): 3*w*N^2*B + N*B
		w := nRing
		if t, ok := params.Xs().(ring.Ternary); ok && t.H > 0 && int64(t.H) < w {
			w = int64(t.H)
		}
		E = big.NewInt(3*w*N*N*B + N*B)
	case kGKG:
		skIn = s.Value.Q
		skOut = params.RingQP().NewPoly()
		galElInv := ring.ModExp(in.galEl, ringQ.NthRoot()-1, ringQ.NthRoot())
		params.RingQP().AutomorphismNTT(s.Value, galElInv, skOut)
		if gk.GaloisElement != in.galEl {
			ctx.Fail("metadata", "gkg|galois-element-tag", "collective Galois key is tagged with element %d, requested %d", gk.GaloisElement, in.galEl)
			return false
		}
		if gk.NthRoot != ringQ.NthRoot() {
			ctx.Fail("metadata", "gkg|nthroot", "collective Galois key has NthRoot %d, ring has %d", gk.NthRoot, ringQ.NthRoot())
			return false
		}
	default:
		skIn = s.Value.Q
		skOut = s2.Value
	}
	if g.BaseTwoDecomposition != in.b2 || g.LevelQ() != in.lq || g.LevelP() != in.lp {
		ctx.Fail("metadata", kn+"|key-parameters", "key of %s has (levelQ,levelP,base2)=(%d,%d,%d)", in, g.LevelQ(), g.LevelP(), g.BaseTwoDecomposition)
		return false
	}
	e, where := gadgetNoise(params, g, skIn, skOut)
	ctx.Count("oracle.key-noise", 1)
	ctx.Event("%s rows=%v noise=%s bound=%s", in, g.BaseTwoDecompositionVectorSize(), e.String(), E.String())
	if e.Cmp(E) > 0 {
		ctx.Fail("noise", kn+"|row-noise", "collective key of %s (%d parties): some row does not encrypt P*w*s_in under s_out: recovered error has inf-norm %s > hard bound %s (%s; digit counts %v)", in, N, e.String(), E.String(), where, g.BaseTwoDecompositionVectorSize())
		return false
	}
	if len(g.BaseTwoDecompositionVectorSize()) > 1 {
		d := g.BaseTwoDecompositionVectorSize()
		for _, x := range d[1:] {
			if x != d[0] {
				ctx.Count("probe.unequal-digit-counts-per-row", 1)
				break
			}
		}
	}
	// functional use through the single-party evaluator
	level := ch.Draw("ct-level", in.lq+1)
	ks := ksNoiseBound(params, g, level, E, nRing*N)
	Ql := Qtop(level)
	if new(big.Int).Lsh(ks, 2).Cmp(Ql) >= 0 {
		ctx.Count("probe.functional-oracle-budget-skipped", 1)
		return true
	}
	enc := rlwe.NewEncryptor(params, s)
	// input ciphertext and expected plaintext
	var ct *rlwe.Ciphertext
	var want []*big.Int
	rl := ringQ.AtLevel(level)
	if in.kind == kRKG {
		ct = rlwe.NewCiphertext(params, 2, level)
		lo := enc.EncryptZeroNew(level)
		ct.Value[0].CopyLvl(level, lo.Value[0])
		ct.Value[1].CopyLvl(level, lo.Value[1])
		catalog.FillPoly(rl, ct.Value[2], core.NewXoshiro(uint64(ch.Draw("c2-seed", 1<<16))))
		*ct.MetaData = *lo.MetaData
		want = decryptRaw(params, ct, s)
	} else {
		ct = enc.EncryptZeroNew(level)
		pt := rl.NewPoly()
		catalog.FillPoly(rl, pt, core.NewXoshiro(uint64(ch.Draw("pt-seed", 1<<16))))
		rl.Add(ct.Value[0], pt, ct.Value[0])
		want = decryptRaw(params, ct, s)
		if in.kind == kGKG {
			want = automorphBig(want, in.galEl)
		}
	}
	target := s
	if in.kind == kEVK {
		target = s2
	}
	use := func(rlk *rlwe.RelinearizationKey, gk *rlwe.GaloisKey, evk *rlwe.EvaluationKey) (res *big.Int, err error, pnk bool, site, msg string) {
		var out *rlwe.Ciphertext
		pnk, site, msg = core.Protect(func() {
			out = rlwe.NewCiphertext(params, 1, level)
			switch in.kind {
			case kRKG:
				err = rlwe.NewEvaluator(params, rlwe.NewMemEvaluationKeySet(rlk)).Relinearize(ct, out)
			case kGKG:
				err = rlwe.NewEvaluator(params, rlwe.NewMemEvaluationKeySet(nil, gk)).Automorphism(ct, in.galEl, out)
			default:
				err = rlwe.NewEvaluator(params, nil).ApplyEvaluationKey(ct, evk, out)
			}
		})
		if pnk || err != nil {
			return
		}
		res = maxAbsDiff(decryptRaw(params, out, target), want, Ql)
		return
	}
	// the same operation with a single-party key of the ideal secret(s)
	single := func() (*big.Int, error, bool, string, string) {
		switch in.kind {
		case kRKG:
			return use(kgen.GenRelinearizationKeyNew(s, in.ep), nil, nil)
		case kGKG:
			return use(nil, kgen.GenGaloisKeyNew(in.galEl, s, in.ep), nil)
		default:
			return use(nil, nil, kgen.GenEvaluationKeyNew(s, s2, in.ep))
		}
	}
	res, err, pnk, site, msg := use(rlk, gk, evk)
	ctx.Count("oracle.key-functional", 1)
	bad := ""
	switch {
	case pnk:
		bad = fmt.Sprintf("panicked in %s: %s", site, msg)
	case err != nil:
		bad = fmt.Sprintf("was refused: %v", err)
	case res.Cmp(ks) > 0:
		bad = fmt.Sprintf("gives a result that differs from the expected plaintext by %s > hard bound %s", res.String(), ks.String())
	}
	if bad != "" {
		// "exactly as a single-party key for that ideal secret would": compare
		sres, serr, spnk, _, _ := single()
		if spnk || serr != nil || sres.Cmp(ks) > 0 {
			// one cause of a parameterisation whose keys cannot work, collective or not: fewer base-two digits
			// than the bits of a prime (the top bits of the decomposed value are dropped). The protocol and
			// the key generator accept the parameterisation, so the keys have to work.
			if in.b2 > 0 && in.lp <= 0 && !pnk && err == nil {
				digits := params.BaseTwoDecompositionVectorSize(in.lq, in.lp, in.b2)
				for i := 0; i <= in.lq && i < len(digits); i++ {
					if bl := bits.Len64(params.Q()[i]); digits[i]*in.b2 < bl {
						ctx.Fail("functional", kn+"|digits-do-not-cover-modulus", "%s: prime %d has %d bits but gets %d digits of %d bits: the collective key (and a single-party key alike) switches with an error of %s > hard bound %s", in, i, bl, digits[i], in.b2, res.String(), ks.String())
						return false
					}
				}
			}
			ctx.Count("probe.single-party-key-fails-too", 1)
			ctx.Event("%s: single-party key of the ideal secret fails the same use (not a property of the protocol)", in)
			return true
		}
		cls := "key-switch-residual"
		if pnk {
			cls = "use-panic"
		} else if err != nil {
			cls = "use-error"
		}
		ctx.Fail("functional", kn+"|"+cls, "%s: using the collective key at level %d in the single-party evaluator %s, while a single-party key of the ideal secret works (residual %s)", in, level, bad, sres.String())
		return false
	}
	if ch.Chance("calibrate-single-party", 1, 4) {
		// oracle calibration: the row-noise oracle must accept single-party keys with bound B
		var sg *rlwe.GadgetCiphertext
		switch in.kind {
		case kRKG:
			sg = &kgen.GenRelinearizationKeyNew(s, in.ep).GadgetCiphertext
		case kGKG:
			sg = &kgen.GenGaloisKeyNew(in.galEl, s, in.ep).GadgetCiphertext
		default:
			sg = &kgen.GenEvaluationKeyNew(s, s2, in.ep).GadgetCiphertext
		}
		se, swhere := gadgetNoise(params, sg, skIn, skOut)
		ctx.Count("oracle.calibration-single-party-key", 1)
		if se.Cmp(big.NewInt(B)) > 0 {
			ctx.Harness("row-noise oracle rejects a single-party key of %s: %s at %s (bound %d)", in, se.String(), swhere, B)
		}
	}
	return true
}
