package props

import (
	"fmt"
	"math"

	"github.com/tuneinsight/lattigo/v6/circuits/ckks/bootstrapping"
	"github.com/tuneinsight/lattigo/v6/circuits/ckks/comparison"
	"github.com/tuneinsight/lattigo/v6/circuits/ckks/inverse"
	"github.com/tuneinsight/lattigo/v6/circuits/ckks/minimax"
	"github.com/tuneinsight/lattigo/v6/core/rlwe"
	"github.com/tuneinsight/lattigo/v6/ring"
	"github.com/tuneinsight/lattigo/v6/schemes/ckks"

	"verifsim/core"
)

// C09, the circuits built on composite minimax polynomials (heavy tier, a second or more per run): sign, step,
// maximum, minimum, the inverse on the positive, negative and full domain, the Goldschmidt division. They take
// ciphertexts and return new ones: the ciphertexts they are given stay as they were, whatever the interval.

type c09CircuitsCtx struct {
	params ckks.Parameters
	sk     *rlwe.SecretKey
	evk    *rlwe.MemEvaluationKeySet
	encr   *rlwe.Encryptor
	ecd    *ckks.Encoder
}

func c09CircuitsContext(ctx *core.RunCtx, ci bool) *c09CircuitsCtx {
	c := ctx.Cached(fmt.Sprintf("c09/circuits/%v", ci), func(*core.Xoshiro) any {
		lit := ckks.ParametersLiteral{LogN: 9, LogQ: []int{55, 55, 45, 45, 45, 45, 45, 45, 45, 45, 45, 45}, LogP: []int{60, 60}, LogDefaultScale: 90}
		if ci {
			lit.RingType = ring.ConjugateInvariant
		}
		p, err := ckks.NewParametersFromLiteral(lit)
		if err != nil {
			return err
		}
		kgen := rlwe.NewKeyGenerator(p)
		sk := kgen.GenSecretKeyNew()
		var gks []*rlwe.GaloisKey
		if !ci {
			gks = append(gks, kgen.GenGaloisKeyNew(p.GaloisElementForComplexConjugation(), sk))
		}
		return &c09CircuitsCtx{params: p, sk: sk, evk: rlwe.NewMemEvaluationKeySet(kgen.GenRelinearizationKeyNew(sk), gks...),
			encr: rlwe.NewEncryptor(p, sk), ecd: ckks.NewEncoder(p)}
	})
	cc, ok := c.(*c09CircuitsCtx)
	if !ok {
		ctx.Harness("circuits context: %v", c)
	}
	return cc
}

func c09CircuitsRun(ctx *core.RunCtx, g *core.Xoshiro) {
	ch := ctx.Ch
	cc := c09CircuitsContext(ctx, ch.Chance("circuits-conjugate-invariant", 1, 3))
	p := cc.params
	// evaluators of this run
	eval := ckks.NewEvaluator(p, cc.evk)
	btp := bootstrapping.NewSecretKeyBootstrapper(p, cc.sk)
	mm := minimax.NewEvaluator(p, eval, btp)
	encrypt := func(lo, hi float64) *rlwe.Ciphertext {
		vals := make([]float64, p.MaxSlots())
		for i := range vals {
			vals[i] = lo + (hi-lo)*float64(g.Next()%(1<<20))/float64(1<<20)
		}
		pt := ckks.NewPlaintext(p, p.MaxLevel())
		if err := cc.ecd.Encode(vals, pt); err != nil {
			ctx.Harness("encode: %v", err)
		}
		ct, err := cc.encr.EncryptNew(pt)
		if err != nil {
			ctx.Harness("encrypt: %v", err)
		}
		return ct
	}
	var name string
	var ins []*rlwe.Ciphertext
	var call func() error
	switch ch.Draw("circuit", 8) {
	case 0, 1:
		// the full domain; an upper bound of the interval of 1 or below skips the normalization
		log2max := []float64{10, 0, -1, 3}[ch.Draw("inverse-log2max", 4)]
		log2min := -10.0
		hi := math.Exp2(log2max)
		in := encrypt(math.Exp2(log2min), hi)
		if g.Next()%2 == 0 {
			in = encrypt(-hi, -math.Exp2(log2min))
		}
		name = fmt.Sprintf("inverse.EvaluateFullDomainNew(log2max=%v)", log2max)
		ins = []*rlwe.Ciphertext{in}
		iv := inverse.NewEvaluator(p, mm)
		call = func() error { _, err := iv.EvaluateFullDomainNew(in, log2min, log2max); return err }
	case 2:
		log2max := []float64{10, 0, -1, 3}[ch.Draw("inverse-log2max", 4)]
		in := encrypt(math.Exp2(-10), math.Exp2(log2max))
		name = fmt.Sprintf("inverse.EvaluatePositiveDomainNew(log2max=%v)", log2max)
		ins = []*rlwe.Ciphertext{in}
		iv := inverse.NewEvaluator(p, mm)
		call = func() error { _, err := iv.EvaluatePositiveDomainNew(in, -10, log2max); return err }
	case 3:
		log2max := []float64{10, 0, -1, 3}[ch.Draw("inverse-log2max", 4)]
		in := encrypt(-math.Exp2(log2max), -math.Exp2(-10))
		name = fmt.Sprintf("inverse.EvaluateNegativeDomainNew(log2max=%v)", log2max)
		ins = []*rlwe.Ciphertext{in}
		iv := inverse.NewEvaluator(p, mm)
		call = func() error { _, err := iv.EvaluateNegativeDomainNew(in, -10, log2max); return err }
	case 4:
		in := encrypt(math.Exp2(-10), 2-math.Exp2(-10))
		name = "inverse.GoldschmidtDivisionNew"
		ins = []*rlwe.Ciphertext{in}
		iv := inverse.NewEvaluator(p, mm)
		call = func() error { _, err := iv.GoldschmidtDivisionNew(in, -10); return err }
	case 5:
		in := encrypt(-1, 1)
		cmp := comparison.NewEvaluator(p, mm)
		if ch.Bool("step") {
			name = "comparison.Step"
			call = func() error { _, err := cmp.Step(in); return err }
		} else {
			name = "comparison.Sign"
			call = func() error { _, err := cmp.Sign(in); return err }
		}
		ins = []*rlwe.Ciphertext{in}
	case 6:
		a, b := encrypt(-0.5, 0.5), encrypt(-0.5, 0.5)
		if ch.Chance("same-operand", 1, 4) {
			b = a
		}
		cmp := comparison.NewEvaluator(p, mm)
		if ch.Bool("min") {
			name = "comparison.Min"
			call = func() error { _, err := cmp.Min(a, b); return err }
		} else {
			name = "comparison.Max"
			call = func() error { _, err := cmp.Max(a, b); return err }
		}
		ins = []*rlwe.Ciphertext{a, b}
	default:
		in := encrypt(-1, 1)
		name = "minimax.Evaluate"
		ins = []*rlwe.Ciphertext{in}
		poly := minimax.NewPolynomial(comparison.DefaultCompositePolynomialForSign)
		call = func() error { _, err := mm.Evaluate(in, poly); return err }
	}
	hs := make([]uint64, len(ins))
	for i, c := range ins {
		hs[i] = hashCt(c)
	}
	ctx.Count("op.ckks."+name, 1)
	st := c09Exec(call)
	ctx.Event("%s (ring %v) -> %s", name, p.RingType(), st)
	if st.kind == 2 {
		ctx.Fail("status", "ckks|"+name+"|panic", "%s panicked: %s", name, st.msg)
		return
	}
	ctx.Count("oracle.twin-step", 1)
	for i, c := range ins {
		if hashCt(c) != hs[i] {
			ctx.Fail("inputs", "ckks|"+name+"|op-modified", "%s returned a new ciphertext and changed operand %d it was given (level now %d, scale 2^%.1f)", name, i, c.Level(), math.Log2(c.Scale.Float64()))
			return
		}
	}
}
