package props

import (
	"github.com/tuneinsight/lattigo/v6/core/rlwe"
	"github.com/tuneinsight/lattigo/v6/schemes/ckks"

	"verifsim/catalog"
	"verifsim/core"
)

// C09, bootstrapping circuit (thorough tier only, seconds per run): the
// operations of the bootstrapping evaluator and of the homomorphic DFT and
// modular-reduction evaluators under it take ciphertexts and return new ones;
// their arguments stay as they were, and an output that is one of the inputs
// gives the value a distinct output gives.
func c09HeavyRun(ctx *core.RunCtx) {
	ch := ctx.Ch
	variant := ch.Draw("btp-variant", 2)
	cc := c10BtpContext(ctx, variant)
	ev := cc.eval.ShallowCopy() // an evaluator of this run (the cached one stays pristine)
	g := core.NewXoshiro(uint64(ch.Draw("content-seed", 1<<20)))
	ctx.Nontrivial = true
	switch ch.Draw("heavy-op", 6) {
	case 4, 5:
		c09CircuitsRun(ctx, g)
	case 0:
		in := cc.cts[0].CopyNew()
		h := hashCt(in)
		name := "bootstrapping.Bootstrap"
		call := func() error { _, err := ev.Bootstrap(in); return err }
		if variant == 0 && ch.Bool("direct-evaluate") {
			// the entry point of the generic bootstrapper interface (same ring: no packing in front of it)
			name = "bootstrapping.Evaluate"
			call = func() error { _, err := ev.Evaluate(in); return err }
		}
		ctx.Count("op.ckks."+name, 1)
		st := c09Exec(call)
		ctx.Event("%s -> %s", name, st)
		if st.kind == 2 {
			ctx.Fail("status", "ckks|"+name+"|panic", "%s panicked: %s", name, st.msg)
			return
		}
		ctx.Count("oracle.twin-step", 1)
		if hashCt(in) != h {
			ctx.Fail("inputs", "ckks|"+name+"|op0-modified", "%s returned a new ciphertext and changed the one it was given (level %d -> %d, scale %v -> %v)", name, cc.cts[0].Level(), in.Level(), &cc.cts[0].Scale.Value, &in.Scale.Value)
			return
		}
	case 1:
		ins := []rlwe.Ciphertext{*cc.cts[1].CopyNew(), *cc.cts[2].CopyNew()}
		h0, h1 := hashCt(&ins[0]), hashCt(&ins[1])
		ctx.Count("op.ckks.bootstrapping.BootstrapMany", 1)
		st := c09Exec(func() error { _, err := ev.BootstrapMany(ins); return err })
		ctx.Event("BootstrapMany -> %s", st)
		if st.kind == 2 {
			ctx.Fail("status", "ckks|bootstrapping.BootstrapMany|panic", "BootstrapMany panicked: %s", st.msg)
			return
		}
		ctx.Count("oracle.twin-step", 1)
		if hashCt(&ins[0]) != h0 || hashCt(&ins[1]) != h1 {
			ctx.Fail("inputs", "ckks|bootstrapping.BootstrapMany|op0-modified", "BootstrapMany returned new ciphertexts and changed the ones it was given")
			return
		}
	case 2:
		// modular reduction: a ciphertext above the level the evaluator works at
		bp := cc.btp.BootstrappingParameters
		lvl := ev.Mod1Parameters.LevelQ + 1 + ch.Draw("mod1-extra-levels", 2)
		if lvl > bp.MaxLevel() {
			lvl = bp.MaxLevel()
		}
		in := ckks.NewCiphertext(bp, 1, lvl)
		for i := range in.Value {
			catalog.FillPoly(bp.RingQ().AtLevel(lvl), in.Value[i], g)
		}
		in.Scale = ev.Mod1Parameters.ScalingFactor()
		h := hashCt(in)
		// the plain entry point, or the one that folds a constant into the polynomial; called twice on the same
		// evaluator with the same input: the evaluator's parameters are an argument like any other (unchanged), and
		// the second result is the first
		scaling := []complex128{1, 0.5, 0.25, 2}[ch.Draw("mod1-scaling", 4)]
		name := "mod1.EvaluateNew"
		call := func(c *rlwe.Ciphertext) (*rlwe.Ciphertext, error) { return ev.Mod1Evaluator.EvaluateNew(c) }
		if ch.Bool("mod1-and-scale") {
			name = "mod1.EvaluateAndScaleNew"
			call = func(c *rlwe.Ciphertext) (*rlwe.Ciphertext, error) {
				return ev.Mod1Evaluator.EvaluateAndScaleNew(c, scaling)
			}
		}
		ctx.Count("op.ckks."+name, 1)
		fp := core.NewSweep().FootprintOf(&ev.Mod1Parameters)
		var r1, r2 *rlwe.Ciphertext
		st := c09Exec(func() (err error) { r1, err = call(in); return })
		ctx.Event("%s level=%d scaling=%v -> %s", name, lvl, scaling, st)
		ctx.Count("oracle.twin-step", 1)
		if hashCt(in) != h {
			ctx.Fail("inputs", "ckks|"+name+"|op0-modified", "%s returned a new ciphertext and changed the one it was given (level %d -> %d)", name, lvl, in.Level())
			return
		}
		if d := fp.Diff(core.NewSweep().FootprintOf(&ev.Mod1Parameters), 4); len(d) > 0 {
			ctx.Fail("inputs", "ckks|"+name+"|parameters-modified", "%s (scaling %v) changed the parameters of the evaluator, which the caller holds too: %v", name, scaling, d)
			return
		}
		if st.kind == 0 {
			st2 := c09Exec(func() (err error) { r2, err = call(in.CopyNew()); return })
			if st2.kind != 0 {
				ctx.Fail("status", "ckks|"+name+"|history-dependent-status", "%s: second call with the same input -> %s", name, st2)
				return
			}
			if ok, w := eqCt(bp.Parameters, r1, r2); !ok {
				ctx.Fail("result", "ckks|"+name+"|history-dependent", "%s (scaling %v) called twice on one evaluator with the same input gives two different ciphertexts: %s", name, scaling, w)
				return
			}
		}
	default:
		// homomorphic decoding with the output being one of the two inputs
		bp := cc.btp.BootstrappingParameters
		lvl := ev.S2CDFTMatrix.LevelQ
		mk := func() *rlwe.Ciphertext {
			c := ckks.NewCiphertext(bp, 1, lvl)
			for i := range c.Value {
				catalog.FillPoly(bp.RingQ().AtLevel(lvl), c.Value[i], g)
			}
			c.LogDimensions.Cols = ev.S2CDFTMatrix.LogSlots
			return c
		}
		re, im := mk(), mk()
		if ev.S2CDFTMatrix.LogSlots < bp.LogMaxSlots() {
			// sparse packing takes a single input: nothing to alias
			ctx.Count("probe.step-rejected-by-both", 1)
			return
		}
		which := ch.Draw("dft-out-alias", 2)
		tre, tim := re.CopyNew(), im.CopyNew()
		tout := ckks.NewCiphertext(bp, 1, lvl)
		out := re
		name := "out==real-part"
		if which == 1 {
			out, name = im, "out==imaginary-part"
		}
		hre, him := hashCt(re), hashCt(im)
		ctx.Count("op.ckks.dft.SlotsToCoeffs", 1)
		s1 := c09Exec(func() error { return ev.DFTEvaluator.SlotsToCoeffs(re, im, ev.S2CDFTMatrix, out) })
		twin := cc.eval.ShallowCopy()
		s2 := c09Exec(func() error { return twin.DFTEvaluator.SlotsToCoeffs(tre, tim, twin.S2CDFTMatrix, tout) })
		ctx.Event("dft.SlotsToCoeffs %s -> sys %s / twin %s", name, s1, s2)
		ctx.Count("oracle.twin-step", 1)
		if s1.kind != s2.kind {
			if s1.kind == 1 && s2.kind == 0 {
				ctx.Count("probe.aliased-call-rejected", 1)
				return
			}
			ctx.Fail("status", "ckks|dft.SlotsToCoeffs|"+name+"|status-differs", "dft.SlotsToCoeffs with %s: %s ; with a distinct output: %s", name, s1, s2)
			return
		}
		if s1.kind != 0 {
			return
		}
		if which == 1 && hashCt(re) != hre || which == 0 && hashCt(im) != him {
			ctx.Fail("inputs", "ckks|dft.SlotsToCoeffs|"+name+"|other-input-modified", "dft.SlotsToCoeffs with %s modified its other input", name)
			return
		}
		if ok, w := eqCt(bp.Parameters, out, tout); !ok {
			ctx.Fail("result", "ckks|dft.SlotsToCoeffs|"+name+"|differs", "dft.SlotsToCoeffs with %s gives a different ciphertext than with a distinct output: %s", name, w)
			return
		}
	}
	ctx.Steps++
}
