package props

import (
	"fmt"

	"github.com/tuneinsight/lattigo/v6/core/rlwe"
	"github.com/tuneinsight/lattigo/v6/ring/ringqp"

	"verifsim/catalog"
	"verifsim/core"
)

// C09, rlwe layer: the scheme-agnostic evaluator (automorphisms, key
// switching, relinearization, traces, inner sums, replication) on ciphertexts
// in and outside the NTT domain.

type c09RLWECtx struct {
	params rlwe.Parameters
	sk     *rlwe.SecretKey
	evk    *rlwe.MemEvaluationKeySet
	swk    *rlwe.EvaluationKey
	// swkLow: a switching key generated below the maximum level (legal: EvaluationKeyParameters.LevelQ)
	swkLow *rlwe.EvaluationKey
	// evkLow: the Galois keys of evk generated one level below the maximum
	evkLow *rlwe.MemEvaluationKeySet
	// the ring of half the degree over the same moduli, a key from its secret to sk, and values encrypted there
	// (one per level): re-encryption into the larger ring
	small     *rlwe.Parameters
	swkUp     *rlwe.EvaluationKey
	smallVals []*rlwe.Ciphertext
}

func c09RLWE(ctx *core.RunCtx) *c09Scheme {
	ch := ctx.Ch
	var cc *c09RLWECtx
	for try := 0; ; try++ {
		spec := catalog.DrawRLWESpec(ch, catalog.SpecOpts{MinLogN: 5, MaxLogN: 7, MinQ: 2, MaxQ: 4, MinP: 1, MaxP: 2, MinBits: 40, MaxBits: 58})
		spec.NTT = ch.Bool("ntt-domain")
		key := "c09rlwe/" + spec.Key()
		c := ctx.Cached(key, func(*core.Xoshiro) any {
			p, err := spec.Build()
			if err != nil {
				return err
			}
			kgen := rlwe.NewKeyGenerator(p)
			sk := kgen.GenSecretKeyNew()
			sk2 := kgen.GenSecretKeyNew()
			galEls := p.GaloisElements(c09Rotations)
			galEls = append(galEls, rlwe.GaloisElementsForTrace(p, 0)...)
			galEls = append(galEls, rlwe.GaloisElementsForInnerSum(p, 1, 4)...)
			galEls = append(galEls, rlwe.GaloisElementsForInnerSum(p, 2, 3)...)
			galEls = append(galEls, rlwe.GaloisElementsForReplicate(p, 1, 4)...)
			galEls = append(galEls, rlwe.GaloisElementsForReplicate(p, 2, 3)...)
			seen := map[uint64]bool{}
			var uniq []uint64
			for _, g := range galEls {
				if !seen[g] {
					seen[g] = true
					uniq = append(uniq, g)
				}
			}
			evk := rlwe.NewMemEvaluationKeySet(kgen.GenRelinearizationKeyNew(sk), kgen.GenGaloisKeysNew(uniq, sk)...)
			lowQ, lowP := p.MaxLevelQ()-1, p.MaxLevelP()
			low := kgen.GenEvaluationKeyNew(sk, sk2, rlwe.EvaluationKeyParameters{LevelQ: &lowQ, LevelP: &lowP})
			evkLow := rlwe.NewMemEvaluationKeySet(nil, kgen.GenGaloisKeysNew(uniq, sk, rlwe.EvaluationKeyParameters{LevelQ: &lowQ, LevelP: &lowP})...)
			x := &c09RLWECtx{params: p, sk: sk, evk: evk, swk: kgen.GenEvaluationKeyNew(sk, sk2), swkLow: low, evkLow: evkLow}
			if ps, err := rlwe.NewParametersFromLiteral(rlwe.ParametersLiteral{LogN: p.LogN() - 1, Q: p.Q(), P: p.P(), RingType: p.RingType(), NTTFlag: p.NTTFlag()}); err == nil {
				skS := rlwe.NewKeyGenerator(ps).GenSecretKeyNew()
				x.small = &ps
				x.swkUp = kgen.GenEvaluationKeyNew(skS, sk)
				encS := rlwe.NewEncryptor(ps, skS)
				for l := 0; l <= ps.MaxLevelQ(); l++ {
					x.smallVals = append(x.smallVals, encS.EncryptZeroNew(l))
				}
			}
			return x
		})
		if x, ok := c.(*c09RLWECtx); ok {
			cc = x
			ctx.Event("config rlwe %s", spec)
			break
		}
		if try > 20 {
			ctx.Harness("no rlwe parameter set: %v", c)
		}
	}
	params := cc.params
	sc := &c09Scheme{name: "rlwe", params: params}
	if !params.NTTFlag() {
		sc.name = "rlwe-coeff"
	}
	sc.newEval = func() any { return rlwe.NewEvaluator(params, cc.evk) }
	sc.newCt = func(deg, level int) *rlwe.Ciphertext { return rlwe.NewCiphertext(params, deg, level) }
	sc.keyHash = func() uint64 { return hashKeySet(cc.evk) }
	sc.newScale = func(g *core.Xoshiro) rlwe.Scale { return rlwe.NewScale(1 + g.Next()%1000) }
	encr := rlwe.NewEncryptor(params, cc.sk)
	sc.fresh = func(g *core.Xoshiro, level int) *rlwe.Ciphertext {
		pt := rlwe.NewPlaintext(params, level)
		catalog.FillPoly(params.RingQ().AtLevel(level), pt.Value, g)
		ct, err := encr.EncryptNew(pt)
		if err != nil {
			ctx.Harness("encrypt: %v", err)
		}
		if g.Next()%4 == 0 {
			// a degree-2 value (what a tensoring leaves): a third uniform component
			ct.Resize(2, level)
			catalog.FillPoly(params.RingQ().AtLevel(level), ct.Value[2], g)
		}
		return ct
	}
	sc.gen = func(g *core.Xoshiro, kind, level int, of *rlwe.Ciphertext) any { return nil }
	ev := func(x any) *rlwe.Evaluator { return x.(*rlwe.Evaluator) }
	logNs := []int{0, 1, 2, params.LogN() - 2, params.LogN() - 1}
	sc.ops = []c09Op{
		{name: "Automorphism", op1: []int{vNone}, ks: c09Rotations, needDeg1: true, deg: degOne, call: func(e any, a *rlwe.Ciphertext, b any, k int, o *rlwe.Ciphertext) error {
			return ev(e).Automorphism(a, params.GaloisElement(k), o)
		}},
		{name: "Automorphism(identity)", op1: []int{vNone}, needDeg1: true, deg: degOne, call: func(e any, a *rlwe.Ciphertext, b any, k int, o *rlwe.Ciphertext) error {
			return ev(e).Automorphism(a, 1, o)
		}},
		{name: "Automorphism(conjugate)", op1: []int{vNone}, needDeg1: true, deg: degOne, call: func(e any, a *rlwe.Ciphertext, b any, k int, o *rlwe.Ciphertext) error {
			return ev(e).Automorphism(a, params.GaloisElementOrderTwoOrthogonalSubgroup(), o)
		}},
		{name: "ApplyEvaluationKey", op1: []int{vNone}, needDeg1: true, deg: degOne, call: func(e any, a *rlwe.Ciphertext, b any, k int, o *rlwe.Ciphertext) error {
			return ev(e).ApplyEvaluationKey(a, cc.swk, o)
		}},
		{name: "ApplyEvaluationKey(key of lower level)", op1: []int{vNone}, needDeg1: true, deg: degOne, call: func(e any, a *rlwe.Ciphertext, b any, k int, o *rlwe.Ciphertext) error {
			return ev(e).ApplyEvaluationKey(a, cc.swkLow, o)
		}},
		{name: "ApplyEvaluationKey(from the ring of half the degree)", op1: []int{vNone}, needDeg1: true, deg: degOne, call: func(e any, a *rlwe.Ciphertext, b any, k int, o *rlwe.Ciphertext) error {
			// the value comes from the smaller ring (at the level of the operand, which is not read otherwise)
			if cc.small == nil || o == a {
				return fmt.Errorf("no smaller ring over these moduli")
			}
			in := cc.smallVals[a.Level()]
			before := hashPoly(hashPoly(1, in.Value[0]), in.Value[1])
			err := ev(e).ApplyEvaluationKey(in, cc.swkUp, o)
			if hashPoly(hashPoly(1, in.Value[0]), in.Value[1]) != before {
				c09ArgModified = "the ciphertext of the smaller ring"
			}
			return err
		}},
		{name: "Relinearize", op1: []int{vNone}, deg: degOne, call: func(e any, a *rlwe.Ciphertext, b any, k int, o *rlwe.Ciphertext) error {
			if a.Degree() != 2 {
				return fmt.Errorf("not a degree-2 input")
			}
			return ev(e).Relinearize(a, o)
		}},
		{name: "GadgetProduct", op1: []int{vNone}, needDeg1: true, callerSetsMeta: true, deg: degOne, call: func(e any, a *rlwe.Ciphertext, b any, k int, o *rlwe.Ciphertext) error {
			// polynomial x gadget ciphertext into a ciphertext that does not hold the polynomial
			if o == a {
				return fmt.Errorf("the output holds the input polynomial")
			}
			o.Resize(1, a.Level())
			ev(e).GadgetProduct(a.Level(), a.Value[1], &cc.swk.GadgetCiphertext, o)
			return nil
		}},
		{name: "AutomorphismHoisted", op1: []int{vNone}, ks: c09Rotations, needDeg1: true, deg: degOne, call: func(e any, a *rlwe.Ciphertext, b any, k int, o *rlwe.Ciphertext) error {
			if !a.IsNTT {
				return fmt.Errorf("hoisting works on the NTT representation")
			}
			x := ev(e)
			x.DecomposeNTT(a.Level(), params.MaxLevelP(), params.PCount(), a.Value[1], a.IsNTT, x.BuffDecompQP)
			return x.AutomorphismHoisted(a.Level(), a, x.BuffDecompQP, params.GaloisElement(k), o)
		}},
		{name: "GadgetProductHoisted", op1: []int{vNone}, needDeg1: true, callerSetsMeta: true, deg: degOne, call: func(e any, a *rlwe.Ciphertext, b any, k int, o *rlwe.Ciphertext) error {
			if !a.IsNTT {
				return fmt.Errorf("hoisting works on the NTT representation")
			}
			x := ev(e)
			x.DecomposeNTT(a.Level(), params.MaxLevelP(), params.PCount(), a.Value[1], a.IsNTT, x.BuffDecompQP)
			o.Resize(1, a.Level())
			x.GadgetProductHoisted(a.Level(), x.BuffDecompQP, &cc.swk.GadgetCiphertext, o)
			return nil
		}},
		{name: "ModDown", op1: []int{vNone}, ks: []int{0, 1, 2, 3}, needDeg1: true, callerSetsMeta: true, deg: degOne, call: func(e any, a *rlwe.Ciphertext, b any, k int, o *rlwe.Ciphertext) error {
			// division by P of an element modulo QP that shares nothing with the output (k: with or without the P
			// part; same or other representation than the output asks for). The element is an input.
			if o == a {
				return fmt.Errorf("the element is built from the first operand")
			}
			lq, lp := a.Level(), params.MaxLevelP()
			if k&1 == 1 {
				lp = -1
			}
			rqp := params.RingQP().AtLevel(lq, lp)
			x := &rlwe.Element[ringqp.Poly]{Value: []ringqp.Poly{rqp.NewPoly(), rqp.NewPoly()}}
			md := *a.MetaData
			x.MetaData = &md
			if k&2 == 2 {
				x.IsNTT = !x.IsNTT
			}
			for i := range x.Value {
				x.Value[i].Q.CopyLvl(lq, a.Value[i])
				if lp >= 0 {
					for j, row := range x.Value[i].P.Coeffs {
						for t := range row {
							row[t] = (a.Value[i].Coeffs[0][t] * 2654435761) % params.RingP().SubRings[j].Modulus
						}
					}
				}
			}
			h := qpHash(x.Value[0])*7 ^ qpHash(x.Value[1])
			nttBefore := x.IsNTT
			o.Resize(1, lq)
			ev(e).ModDown(lq, lp, x, o)
			if qpHash(x.Value[0])*7^qpHash(x.Value[1]) != h || x.IsNTT != nttBefore {
				c09ArgModified = fmt.Sprintf("the element modulo QP it divides (levelP=%d, element NTT=%v, output NTT=%v)", lp, nttBefore, o.IsNTT)
			}
			return nil
		}},
		{name: "InnerFunction", op1: []int{vNone}, ks: []int{1, 2, 3, 4}, needDeg1: true, deg: degOne, call: func(e any, a *rlwe.Ciphertext, b any, k int, o *rlwe.Ciphertext) error {
			x := ev(e)
			return x.InnerFunction(a, 1, k, func(p, q, r *rlwe.Ciphertext) error {
				rq := params.RingQ().AtLevel(r.Level())
				rq.Add(p.Value[0], q.Value[0], r.Value[0])
				rq.Add(p.Value[1], q.Value[1], r.Value[1])
				return nil
			}, o)
		}},
		{name: "Automorphism(keys of lower level)", op1: []int{vNone}, ks: c09Rotations, needDeg1: true, deg: degOne, call: func(e any, a *rlwe.Ciphertext, b any, k int, o *rlwe.Ciphertext) error {
			return ev(e).WithKey(cc.evkLow).Automorphism(a, params.GaloisElement(k), o)
		}},
		{name: "Trace", op1: []int{vNone}, ks: logNs, needDeg1: true, deg: degOne, call: func(e any, a *rlwe.Ciphertext, b any, k int, o *rlwe.Ciphertext) error {
			return ev(e).Trace(a, k, o)
		}},
		{name: "PartialTracesSum", op1: []int{vNone}, ks: []int{1, 2}, deg: degSame, call: func(e any, a *rlwe.Ciphertext, b any, k int, o *rlwe.Ciphertext) error {
			return ev(e).PartialTracesSum(a, k, 5-k, o)
		}},
		{name: "PartialTracesSum(n=1)", op1: []int{vNone}, needDeg1: true, deg: degOne, call: func(e any, a *rlwe.Ciphertext, b any, k int, o *rlwe.Ciphertext) error {
			return ev(e).PartialTracesSum(a, 1, 1, o)
		}},
		{name: "Replicate", op1: []int{vNone}, ks: []int{1, 2}, needDeg1: true, deg: degOne, call: func(e any, a *rlwe.Ciphertext, b any, k int, o *rlwe.Ciphertext) error {
			return ev(e).Replicate(a, k, 5-k, o)
		}},
	}
	return sc
}
