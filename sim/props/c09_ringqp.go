package props

import (
	"github.com/tuneinsight/lattigo/v6/core/rlwe"
	"github.com/tuneinsight/lattigo/v6/ring"
	"github.com/tuneinsight/lattigo/v6/ring/ringqp"

	"verifsim/catalog"
	"verifsim/core"
)

// C09, extended-basis layer: histories of ringqp.Ring operations and of one long-lived ring.BasisExtender
// (the object with scratch buffers behind every key switch) over a pool of QP polynomials, with drawn aliasing
// patterns and scratch poisoning; every step is mirrored on deep copies with a distinct output and a new
// basis extender.

type c09QPArgs struct {
	u    uint64
	gen  uint64
	idx  []uint64
	s    ring.RNSScalar
	list []ringqp.Poly
	lq   int
	lp   int
}

type c09QPOp struct {
	name      string
	arity     int
	accum     bool
	noInPlace bool
	// def: which part of the output the operation defines (0: both, 1: Q only, 2: P only)
	def  int
	call func(r ringqp.Ring, be *ring.BasisExtender, a, b ringqp.Poly, x *c09QPArgs, o ringqp.Poly)
}

func c09QPOps() []c09QPOp {
	p3 := func(name string, accum bool, f func(r ringqp.Ring, a, b, o ringqp.Poly)) c09QPOp {
		return c09QPOp{name: name, arity: 2, accum: accum, call: func(r ringqp.Ring, be *ring.BasisExtender, a, b ringqp.Poly, x *c09QPArgs, o ringqp.Poly) {
			f(r, a, b, o)
		}}
	}
	p2 := func(name string, f func(r ringqp.Ring, a, o ringqp.Poly)) c09QPOp {
		return c09QPOp{name: name, arity: 1, call: func(r ringqp.Ring, be *ring.BasisExtender, a, b ringqp.Poly, x *c09QPArgs, o ringqp.Poly) { f(r, a, o) }}
	}
	px := func(name string, accum, noInPlace bool, def int, f func(r ringqp.Ring, be *ring.BasisExtender, a ringqp.Poly, x *c09QPArgs, o ringqp.Poly)) c09QPOp {
		return c09QPOp{name: name, arity: 1, accum: accum, noInPlace: noInPlace, def: def, call: func(r ringqp.Ring, be *ring.BasisExtender, a, b ringqp.Poly, x *c09QPArgs, o ringqp.Poly) {
			f(r, be, a, x, o)
		}}
	}
	return []c09QPOp{
		p3("Add", false, func(r ringqp.Ring, a, b, o ringqp.Poly) { r.Add(a, b, o) }),
		p3("AddLazy", false, func(r ringqp.Ring, a, b, o ringqp.Poly) { r.AddLazy(a, b, o) }),
		p3("Sub", false, func(r ringqp.Ring, a, b, o ringqp.Poly) { r.Sub(a, b, o) }),
		p3("MulCoeffsMontgomery", false, func(r ringqp.Ring, a, b, o ringqp.Poly) { r.MulCoeffsMontgomery(a, b, o) }),
		p3("MulCoeffsMontgomeryLazy", false, func(r ringqp.Ring, a, b, o ringqp.Poly) { r.MulCoeffsMontgomeryLazy(a, b, o) }),
		p3("MulCoeffsMontgomeryLazyThenAddLazy", true, func(r ringqp.Ring, a, b, o ringqp.Poly) { r.MulCoeffsMontgomeryLazyThenAddLazy(a, b, o) }),
		p3("MulCoeffsMontgomeryThenSub", true, func(r ringqp.Ring, a, b, o ringqp.Poly) { r.MulCoeffsMontgomeryThenSub(a, b, o) }),
		p3("MulCoeffsMontgomeryLazyThenSubLazy", true, func(r ringqp.Ring, a, b, o ringqp.Poly) { r.MulCoeffsMontgomeryLazyThenSubLazy(a, b, o) }),
		p3("MulCoeffsMontgomeryThenAdd", true, func(r ringqp.Ring, a, b, o ringqp.Poly) { r.MulCoeffsMontgomeryThenAdd(a, b, o) }),
		p2("Neg", func(r ringqp.Ring, a, o ringqp.Poly) { r.Neg(a, o) }),
		p2("NTT", func(r ringqp.Ring, a, o ringqp.Poly) { r.NTT(a, o) }),
		p2("INTT", func(r ringqp.Ring, a, o ringqp.Poly) { r.INTT(a, o) }),
		p2("NTTLazy", func(r ringqp.Ring, a, o ringqp.Poly) { r.NTTLazy(a, o) }),
		p2("INTTLazy", func(r ringqp.Ring, a, o ringqp.Poly) { r.INTTLazy(a, o) }),
		p2("MForm", func(r ringqp.Ring, a, o ringqp.Poly) { r.MForm(a, o) }),
		p2("IMForm", func(r ringqp.Ring, a, o ringqp.Poly) { r.IMForm(a, o) }),
		p2("Reduce", func(r ringqp.Ring, a, o ringqp.Poly) { r.Reduce(a, o) }),
		px("MulScalar", false, false, 0, func(r ringqp.Ring, be *ring.BasisExtender, a ringqp.Poly, x *c09QPArgs, o ringqp.Poly) {
			r.MulScalar(a, x.u, o)
		}),
		px("MulRNSScalarMontgomery", false, false, 0, func(r ringqp.Ring, be *ring.BasisExtender, a ringqp.Poly, x *c09QPArgs, o ringqp.Poly) {
			r.MulRNSScalarMontgomery(a, x.s, o)
		}),
		px("EvalPolyScalar", false, false, 0, func(r ringqp.Ring, be *ring.BasisExtender, a ringqp.Poly, x *c09QPArgs, o ringqp.Poly) {
			r.EvalPolyScalar(x.list, x.u, o)
		}),
		px("Automorphism", false, true, 0, func(r ringqp.Ring, be *ring.BasisExtender, a ringqp.Poly, x *c09QPArgs, o ringqp.Poly) {
			r.Automorphism(a, x.gen, o)
		}),
		px("AutomorphismNTT", false, true, 0, func(r ringqp.Ring, be *ring.BasisExtender, a ringqp.Poly, x *c09QPArgs, o ringqp.Poly) {
			r.AutomorphismNTT(a, x.gen, o)
		}),
		px("AutomorphismNTTWithIndex", false, true, 0, func(r ringqp.Ring, be *ring.BasisExtender, a ringqp.Poly, x *c09QPArgs, o ringqp.Poly) {
			r.AutomorphismNTTWithIndex(a, x.idx, o)
		}),
		px("AutomorphismNTTWithIndexThenAddLazy", true, true, 0, func(r ringqp.Ring, be *ring.BasisExtender, a ringqp.Poly, x *c09QPArgs, o ringqp.Poly) {
			r.AutomorphismNTTWithIndexThenAddLazy(a, x.idx, o)
		}),
		px("ExtendBasisSmallNormAndCenter", false, false, 0, func(r ringqp.Ring, be *ring.BasisExtender, a ringqp.Poly, x *c09QPArgs, o ringqp.Poly) {
			r.ExtendBasisSmallNormAndCenter(a.Q, x.lp, o.Q, o.P)
		}),
		px("BasisExtender.ModUpQtoP", false, false, 2, func(r ringqp.Ring, be *ring.BasisExtender, a ringqp.Poly, x *c09QPArgs, o ringqp.Poly) {
			be.ModUpQtoP(x.lq, x.lp, a.Q, o.P)
		}),
		px("BasisExtender.ModUpPtoQ", false, false, 1, func(r ringqp.Ring, be *ring.BasisExtender, a ringqp.Poly, x *c09QPArgs, o ringqp.Poly) {
			be.ModUpPtoQ(x.lp, x.lq, a.P, o.Q)
		}),
		px("BasisExtender.ModDownQPtoQ", false, false, 1, func(r ringqp.Ring, be *ring.BasisExtender, a ringqp.Poly, x *c09QPArgs, o ringqp.Poly) {
			be.ModDownQPtoQ(x.lq, x.lp, a.Q, a.P, o.Q)
		}),
		px("BasisExtender.ModDownQPtoQNTT", false, false, 1, func(r ringqp.Ring, be *ring.BasisExtender, a ringqp.Poly, x *c09QPArgs, o ringqp.Poly) {
			be.ModDownQPtoQNTT(x.lq, x.lp, a.Q, a.P, o.Q)
		}),
		px("BasisExtender.ModDownQPtoP", false, false, 2, func(r ringqp.Ring, be *ring.BasisExtender, a ringqp.Poly, x *c09QPArgs, o ringqp.Poly) {
			be.ModDownQPtoP(x.lq, x.lp, a.Q, a.P, o.P)
		}),
	}
}

func qpHash(p ringqp.Poly) uint64 { return polyHash(p.Q)*31 ^ polyHash(p.P) }

func c09RingQPRun(ctx *core.RunCtx) {
	ch := ctx.Ch
	var params rlwe.Parameters
	for try := 0; ; try++ {
		spec := catalog.DrawRLWESpec(ch, catalog.SpecOpts{MinLogN: 4, MaxLogN: 6, MinQ: 2, MaxQ: 4, MinP: 1, MaxP: 3, MinBits: 30, MaxBits: 60})
		c := ctx.Cached("c09qp/"+spec.Key(), func(*core.Xoshiro) any {
			p, err := rlwe.NewParametersFromLiteral(rlwe.ParametersLiteral{LogN: spec.LogN, LogQ: spec.LogQ, LogP: spec.LogP, NTTFlag: true})
			if err != nil {
				return err
			}
			return &p
		})
		if p, ok := c.(*rlwe.Parameters); ok {
			params = *p
			ctx.Event("config ringqp %s", spec)
			break
		}
		if try > 20 {
			ctx.Harness("no parameter set: %v", c)
		}
	}
	g := core.NewXoshiro(uint64(ch.Draw("content-seed", 1<<20)))
	full := *params.RingQP()
	lq, lp := ch.Draw("level-q", params.MaxLevelQ()+1), ch.Draw("level-p", params.MaxLevelP()+1)
	r := full.AtLevel(lq, lp)
	be := ring.NewBasisExtender(params.RingQ(), params.RingP())
	newPoly := func(fill bool) ringqp.Poly {
		p := r.NewPoly()
		if fill {
			catalog.FillPolyQP(r, p, g)
		}
		return p
	}
	copyQP := func(p ringqp.Poly) ringqp.Poly { return ringqp.Poly{Q: *p.Q.CopyNew(), P: *p.P.CopyNew()} }
	same := func(p, q ringqp.Poly) bool { return &p.Q.Coeffs[0][0] == &q.Q.Coeffs[0][0] }
	var pool []ringqp.Poly
	for i := 0; i < 5; i++ {
		pool = append(pool, newPoly(true))
	}
	ops := c09QPOps()
	nsteps := 6 + ch.Draw("nsteps", 25)
	interesting := 0
	for s := 0; s < nsteps; s++ {
		op := &ops[ch.Draw("op", len(ops))]
		a := pool[ch.Draw("op0", len(pool))]
		var b ringqp.Poly
		if op.arity == 2 {
			b = pool[ch.Draw("op1", len(pool))]
		}
		x := &c09QPArgs{u: g.Next() >> uint(ch.Draw("scalar-shift", 64)), lq: lq, lp: lp}
		x.gen = ring.GaloisGen
		for i := ch.Draw("gen-power", 5); i > 0; i-- {
			x.gen = x.gen * ring.GaloisGen % r.RingQ.NthRoot()
		}
		if ch.Chance("gen-conjugate", 1, 5) {
			x.gen = r.RingQ.NthRoot() - 1
		}
		x.idx, _ = ring.AutomorphismNTTIndex(r.N(), r.RingQ.NthRoot(), x.gen)
		// a scalar over the whole chain of Q followed by that of P, as the method slices it
		x.s = make(ring.RNSScalar, params.RingQ().ModuliChainLength()+params.RingP().ModuliChainLength())
		for i := range x.s {
			x.s[i] = g.Next() >> 4
		}
		evalList := op.name == "EvalPolyScalar"
		if evalList {
			n := 2 + ch.Draw("poly-degree", 4)
			x.list = []ringqp.Poly{a}
			for i := 1; i < n; i++ {
				x.list = append(x.list, pool[ch.Draw("coefficient", len(pool))])
			}
		}
		if op.name == "ExtendBasisSmallNormAndCenter" {
			// the input is a polynomial of small norm: every row holds the same small signed value
			a = newPoly(false)
			for j := 0; j < r.N(); j++ {
				v := int64(g.Next()%33) - 16
				for i, sr := range r.RingQ.SubRings[:lq+1] {
					if v < 0 {
						a.Q.Coeffs[i][j] = sr.Modulus - uint64(-v)
					} else {
						a.Q.Coeffs[i][j] = uint64(v)
					}
				}
			}
		}
		pat := ch.Weighted("alias", []int{3, 4, 3, 2, 2, 3})
		var out ringqp.Poly
		patName := "fresh-out"
		switch pat {
		case 1:
			out, patName = a, "out==op0"
		case 2:
			if op.arity == 2 {
				out, patName = b, "out==op1"
			} else if evalList {
				out, patName = x.list[len(x.list)-1], "out==last-coefficient"
			}
		case 3:
			if op.arity == 2 {
				b, patName = a, "op0==op1"
			}
		case 4:
			if op.arity == 2 {
				b, out, patName = a, a, "out==op0==op1"
			}
		case 5:
			out, patName = newPoly(true), "dirty-out"
		}
		if op.noInPlace && (patName == "out==op0" || patName == "out==op0==op1") {
			out, patName = ringqp.Poly{}, "fresh-out"
		}
		if out.Q.Coeffs == nil {
			out = newPoly(op.accum)
			if op.accum {
				patName += "+accumulator"
			}
		}
		ta := copyQP(a)
		var tb ringqp.Poly
		if op.arity == 2 {
			tb = copyQP(b)
			if same(a, b) {
				tb = ta
			}
		}
		tx := *x
		tx.idx = append([]uint64{}, x.idx...)
		tx.s = append(ring.RNSScalar{}, x.s...)
		tx.list = nil
		for _, p := range x.list {
			tx.list = append(tx.list, copyQP(p))
		}
		if evalList {
			ta = tx.list[0]
		}
		tout := newPoly(false)
		if op.accum {
			tout = copyQP(out)
		}
		ha, hidx, hs := qpHash(a), hashOperand(x.idx), hashOperand([]uint64(x.s))
		haQ, haP := polyHash(a.Q), polyHash(a.P)
		var hb uint64
		if op.arity == 2 {
			hb = qpHash(b)
		}
		var hl []uint64
		for _, p := range x.list {
			hl = append(hl, qpHash(p))
		}
		poolHash := make([]uint64, len(pool))
		for i, p := range pool {
			poolHash[i] = qpHash(p)
		}
		nPoison := 0
		if ch.Chance("poison", 1, 2) {
			st := core.PoisonScratch(be, core.NewXoshiro(g.Next()))
			nPoison = st.Bytes
			ctx.Count("fault.scratch-poisoned", 1)
			ctx.Count("poisoned-bytes", int64(st.Bytes))
			if st.Bytes == 0 {
				ctx.Harness("scratch poisoning found no scratch memory in the basis extender")
			}
		}
		sysSt := c09Exec(func() error { op.call(r, be, a, b, x, out); return nil })
		twinBE := ring.NewBasisExtender(params.RingQ(), params.RingP())
		twinSt := c09Exec(func() error { op.call(r, twinBE, ta, tb, &tx, tout); return nil })
		cls := "ringqp|" + op.name + "|" + aliasClass(patName)
		ctx.Count("oracle.twin-step", 1)
		ctx.Count("op.ringqp."+op.name, 1)
		ctx.Event("ringqp step %d %s %s levels=(%d,%d) poison=%d -> sys %d twin %d", s, op.name, patName, lq, lp, nPoison, sysSt.kind, twinSt.kind)
		if patName != "fresh-out" || nPoison > 0 {
			interesting++
		}
		if sysSt.kind != twinSt.kind {
			ctx.Fail("status", cls+"|status-differs", "%s %s: %s ; with copies of the inputs, a distinct output and a new basis extender: %s", op.name, patName, sysSt, twinSt)
			return
		}
		if sysSt.kind != 0 {
			ctx.Count("probe.step-rejected-by-both", 1)
			continue
		}
		// inputs intact: for the operations that define one part of the output only, the other part of an
		// output that is also the input is an input too
		if !same(out, a) && qpHash(a) != ha || same(out, a) && (op.def == 1 && polyHash(a.P) != haP || op.def == 2 && polyHash(a.Q) != haQ) {
			ctx.Fail("inputs", cls+"|op0-modified", "%s modified its input outside the designated output (%s)", op.name, patName)
			return
		}
		if op.arity == 2 && !same(out, b) && qpHash(b) != hb {
			ctx.Fail("inputs", cls+"|op1-modified", "%s modified its second operand although the output is a different polynomial (%s)", op.name, patName)
			return
		}
		for i, p := range x.list {
			if !same(out, p) && qpHash(p) != hl[i] {
				ctx.Fail("inputs", cls+"|coefficient-modified", "%s modified coefficient %d of its input polynomial list (%s)", op.name, i, patName)
				return
			}
		}
		if hashOperand(x.idx) != hidx || hashOperand([]uint64(x.s)) != hs {
			ctx.Fail("inputs", cls+"|argument-modified", "%s modified a scalar or index argument", op.name)
			return
		}
		for i, p := range pool {
			if same(p, out) || same(p, a) || op.arity == 2 && same(p, b) {
				continue
			}
			if qpHash(p) != poolHash[i] {
				ctx.Fail("inputs", cls+"|bystander-modified", "%s (%s) changed a polynomial that is not among its arguments (value %d of the pool)", op.name, patName, i)
				return
			}
		}
		if op.def != 2 {
			if ok, w := polyEqualRaw(out.Q, tout.Q, lq+1); !ok {
				ctx.Fail("result", cls+"|differs", "%s with %s (scratch poisoned: %d bytes) gives another Q part than with copies of the inputs, a distinct output and a new basis extender: %s (levels %d,%d)", op.name, patName, nPoison, w, lq, lp)
				return
			}
		}
		if op.def != 1 {
			if ok, w := polyEqualRaw(out.P, tout.P, lp+1); !ok {
				ctx.Fail("result", cls+"|differs", "%s with %s (scratch poisoned: %d bytes) gives another P part than with copies of the inputs, a distinct output and a new basis extender: %s (levels %d,%d)", op.name, patName, nPoison, w, lq, lp)
				return
			}
		}
		if op.def == 0 && !same(out, a) && (op.arity < 2 || !same(out, b)) {
			r.Reduce(out, out)
			pool[ch.Draw("pool-slot", len(pool))] = out
		}
		for _, p := range pool {
			r.Reduce(p, p)
		}
	}
	if interesting > 0 {
		ctx.Nontrivial = true
	}
	ctx.Steps += int64(nsteps)
}
