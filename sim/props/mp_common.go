package props

import (
	"bufio"
	"fmt"
	"io"

	"github.com/tuneinsight/lattigo/v6/core/rlwe"
	"github.com/tuneinsight/lattigo/v6/ring"
	"github.com/tuneinsight/lattigo/v6/ring/ringqp"

	"verifsim/catalog"
	"verifsim/core"
	"verifsim/simio"
)

// Shared helpers of the multiparty workloads (C14, C15, C16).

// drawParams draws an rlwe parameter set and returns it from the worker cache.
func drawParams(ctx *core.RunCtx, o catalog.SpecOpts) (rlwe.Parameters, catalog.RLWESpec) {
	for try := 0; ; try++ {
		spec := catalog.DrawRLWESpec(ctx.Ch, o)
		c := ctx.Cached(spec.Key(), func(*core.Xoshiro) any {
			pp, err := spec.Build()
			if err != nil {
				return err
			}
			return &pp
		})
		if pp, ok := c.(*rlwe.Parameters); ok {
			return *pp, spec
		}
		if try > 20 {
			ctx.Harness("no acceptable parameter set after 20 draws: %v", c)
		}
	}
}

// canonPoly reduces every coefficient into [0,q).
func canonPoly(r *ring.Ring, p ring.Poly) ring.Poly {
	out := *p.CopyNew()
	for i := range out.Coeffs {
		q := r.SubRings[i].Modulus
		for j, c := range out.Coeffs[i] {
			if c >= q {
				out.Coeffs[i][j] = c % q
			}
		}
	}
	return out
}

// eqQP compares two QP polynomials as ring elements (canonical residues).
func eqQP(r ringqp.Ring, a, b ringqp.Poly) (bool, string) {
	if a.Q.Level() != b.Q.Level() || a.P.Level() != b.P.Level() {
		return false, fmt.Sprintf("levels (%d,%d) vs (%d,%d)", a.Q.Level(), a.P.Level(), b.Q.Level(), b.P.Level())
	}
	if ok, w := eqPoly(r.RingQ, a.Q, b.Q); !ok {
		return false, "Q " + w
	}
	if r.RingP != nil && a.P.Level() >= 0 {
		if ok, w := eqPoly(r.RingP, a.P, b.P); !ok {
			return false, "P " + w
		}
	}
	return true, ""
}

func eqPoly(r *ring.Ring, a, b ring.Poly) (bool, string) {
	if len(a.Coeffs) != len(b.Coeffs) {
		return false, fmt.Sprintf("rows %d vs %d", len(a.Coeffs), len(b.Coeffs))
	}
	for i := range a.Coeffs {
		q := r.SubRings[i].Modulus
		if len(a.Coeffs[i]) != len(b.Coeffs[i]) {
			return false, fmt.Sprintf("row %d length %d vs %d", i, len(a.Coeffs[i]), len(b.Coeffs[i]))
		}
		for j := range a.Coeffs[i] {
			if a.Coeffs[i][j]%q != b.Coeffs[i][j]%q {
				return false, fmt.Sprintf("row %d coefficient %d: %d vs %d (mod %d)", i, j, a.Coeffs[i][j]%q, b.Coeffs[i][j]%q, q)
			}
		}
	}
	return true, ""
}

func hashPoly(h uint64, p ring.Poly) uint64 {
	for _, row := range p.Coeffs {
		for _, c := range row {
			h = core.SplitMix64(h ^ c)
		}
	}
	return h
}

func hashQP(p ringqp.Poly) uint64 {
	h := hashPoly(17, p.Q)
	if p.P.Level() >= 0 {
		h = hashPoly(h, p.P)
	}
	return h
}

// wire is something that can travel serialized.
type wire interface {
	io.WriterTo
	io.ReaderFrom
	BinarySize() int
}

// transit moves obj "over the network": by reference (false) or through its
// serialization, written by the sender and parsed by the receiver from a
// stream with a drawn chunk schedule (fault-free variant of the C08 stream).
// fresh must be a zero receiver. It returns the object the receiver holds.
func transit[T wire](ctx *core.RunCtx, obj T, fresh T, serialize bool, what string) (T, bool) {
	if !serialize {
		return obj, true
	}
	sink := simio.NewSink(-1)
	n, err := obj.WriteTo(sink)
	if err != nil || n != int64(obj.BinarySize()) || len(sink.Buf) != obj.BinarySize() {
		ctx.Fail("transit", what+"|serialize", "serializing a share for transport failed: n=%d size=%d delivered=%d err=%v", n, obj.BinarySize(), len(sink.Buf), err)
		return obj, false
	}
	rd := simio.NewReader(sink.Buf, nil)
	sched := drawSchedule(ctx, rd, len(sink.Buf))
	var rn int64
	if ctx.Ch.Bool("transit-bufio") {
		rn, err = fresh.ReadFrom(bufio.NewReaderSize(rd, drawBufSize(ctx.Ch)))
	} else {
		rn, err = fresh.ReadFrom(rd)
	}
	ctx.Count("fault.share-serialized-in-transit", 1)
	if err != nil || rn != n {
		ctx.Fail("transit", what+"|parse", "parsing a serialized share failed (chunking %s): n=%d want %d err=%v", sched, rn, n, err)
		return obj, false
	}
	return fresh, true
}

// addSK returns the sum of secret keys (ideal secret), as a new key.
func addSK(params rlwe.Parameters, sks []*rlwe.SecretKey) *rlwe.SecretKey {
	out := rlwe.NewSecretKey(params)
	rqp := params.RingQP()
	for _, sk := range sks {
		rqp.Add(out.Value, sk.Value, out.Value)
	}
	return out
}
