package props

import (
	"fmt"
	"sort"

	"github.com/tuneinsight/lattigo/v6/core/rgsw/blindrot"
	"github.com/tuneinsight/lattigo/v6/core/rlwe"
	"github.com/tuneinsight/lattigo/v6/ring"

	"verifsim/core"
)

// C09, blind rotation: one long-lived blindrot.Evaluator (it keeps an accumulator ciphertext and scratch across
// calls) evaluates look-up tables with key sets of the maximum level or of level 0, in any order; every call is
// mirrored by a new evaluator on copies. The ciphertext, the test polynomials and the keys are inputs.

type c09BRCtx struct {
	pBR, pLWE rlwe.Parameters
	cts       []*rlwe.Ciphertext
	keys      [2]blindrot.MemBlindRotationEvaluationKeySet // level 0, maximum level
	polys     [2]ring.Poly
}

func c09BlindRotRun(ctx *core.RunCtx) {
	ch := ctx.Ch
	c := ctx.Cached("c09/blindrot", func(*core.Xoshiro) any {
		pBR, err := rlwe.NewParametersFromLiteral(rlwe.ParametersLiteral{LogN: 8, LogQ: []int{27, 27}, NTTFlag: true})
		if err != nil {
			return err
		}
		pLWE, err := rlwe.NewParametersFromLiteral(rlwe.ParametersLiteral{LogN: 7, Q: []uint64{0x3001}, NTTFlag: true})
		if err != nil {
			return err
		}
		skLWE, skBR := rlwe.NewKeyGenerator(pLWE).GenSecretKeyNew(), rlwe.NewKeyGenerator(pBR).GenSecretKeyNew()
		cc := &c09BRCtx{pBR: pBR, pLWE: pLWE}
		for _, frac := range []uint64{8, 5, 3} {
			pt := rlwe.NewPlaintext(pLWE, 0)
			pt.Value.Coeffs[0][0] = pLWE.Q()[0] / frac
			pt.Value.Coeffs[0][3] = pLWE.Q()[0] / (frac + 4)
			pLWE.RingQ().NTT(pt.Value, pt.Value)
			ct := rlwe.NewCiphertext(pLWE, 1, 0)
			if err := rlwe.NewEncryptor(pLWE, skLWE).Encrypt(pt, ct); err != nil {
				return err
			}
			cc.cts = append(cc.cts, ct)
		}
		b2, l0 := 7, 0
		cc.keys[0] = blindrot.GenEvaluationKeyNew(pBR, skBR, pLWE, skLWE, rlwe.EvaluationKeyParameters{BaseTwoDecomposition: &b2, LevelQ: &l0})
		cc.keys[1] = blindrot.GenEvaluationKeyNew(pBR, skBR, pLWE, skLWE, rlwe.EvaluationKeyParameters{BaseTwoDecomposition: &b2})
		id := func(x float64) float64 { return x }
		scale := rlwe.NewScale(float64(pBR.Q()[0]) / 4)
		cc.polys[0] = blindrot.InitTestPolynomial(id, scale, pBR.RingQ().AtLevel(0), -1, 1)
		cc.polys[1] = blindrot.InitTestPolynomial(id, scale, pBR.RingQ(), -1, 1)
		return cc
	})
	cc, ok := c.(*c09BRCtx)
	if !ok {
		ctx.Harness("blind-rotation context: %v", c)
	}
	g := core.NewXoshiro(uint64(ch.Draw("content-seed", 1<<20)))
	sys := blindrot.NewEvaluator(cc.pBR, cc.pLWE)
	hres := func(m map[int]*rlwe.Ciphertext) uint64 {
		var ks []int
		for k := range m {
			ks = append(ks, k)
		}
		sort.Ints(ks)
		h := uint64(len(ks))
		for _, k := range ks {
			h = core.SplitMix64(h ^ uint64(k)*0x9e37 ^ canonHashCt(cc.pBR, m[k]) ^ uint64(m[k].Level()+1)*77)
		}
		return h
	}
	nsteps := 2 + ch.Draw("nsteps", 4)
	for s := 0; s < nsteps; s++ {
		nPoison := 0
		if ch.Chance("poison", 1, 2) {
			st := core.PoisonScratch(sys, core.NewXoshiro(g.Next()))
			nPoison = st.Bytes
			ctx.Count("fault.scratch-poisoned", 1)
			ctx.Count("poisoned-bytes", int64(st.Bytes))
		}
		lvl := ch.Draw("key-level", 2)
		in := cc.cts[ch.Draw("ciphertext", len(cc.cts))].CopyNew()
		slots := map[int]bool{0: true}
		if ch.Bool("second-slot") {
			slots[3] = true
		}
		mk := func() map[int]*ring.Poly {
			m := map[int]*ring.Poly{}
			for k := range slots {
				p := *cc.polys[lvl].CopyNew()
				m[k] = &p
			}
			return m
		}
		polys, tpolys := mk(), mk()
		hin := hashCt(in)
		hp := uint64(0)
		for k, p := range polys {
			hp ^= core.SplitMix64(uint64(k) ^ polyHash(*p))
		}
		var r, tr map[int]*rlwe.Ciphertext
		st := c09Exec(func() (err error) { r, err = sys.Evaluate(in, polys, cc.keys[lvl]); return })
		twin := blindrot.NewEvaluator(cc.pBR, cc.pLWE)
		tst := c09Exec(func() (err error) { tr, err = twin.Evaluate(in.CopyNew(), tpolys, cc.keys[lvl]); return })
		cls := "blindrot|Evaluate"
		ctx.Count("oracle.twin-step", 1)
		ctx.Count("op.blindrot.Evaluate", 1)
		ctx.Event("blindrot step %d keys-level=%d slots=%d poison=%d -> %d/%d", s, lvl, len(slots), nPoison, st.kind, tst.kind)
		hp2 := uint64(0)
		for k, p := range polys {
			hp2 ^= core.SplitMix64(uint64(k) ^ polyHash(*p))
		}
		if hashCt(in) != hin || hp2 != hp || len(polys) != len(slots) {
			ctx.Fail("inputs", cls+"|input-modified", "blind rotation modified its ciphertext or the test polynomials it was given")
			return
		}
		if st.kind != tst.kind {
			ctx.Fail("status", cls+"|history-dependent-status", "Evaluate with keys of level index %d on an evaluator used before (step %d): %s ; on a new evaluator: %s", lvl, s, st, tst)
			return
		}
		if st.kind == 0 && hres(r) != hres(tr) {
			ctx.Fail("result", cls+"|differs", "Evaluate on a used evaluator (scratch poisoned: %d bytes, step %d) gives other ciphertexts than a new evaluator (keys of level index %d)", nPoison, s, lvl)
			return
		}
	}
	ctx.Nontrivial = true
	ctx.Steps += int64(nsteps)
	_ = fmt.Sprint
}
