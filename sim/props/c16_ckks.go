package props

import (
	"fmt"
	"math"
	"math/big"

	"github.com/tuneinsight/lattigo/v6/core/rlwe"
	"github.com/tuneinsight/lattigo/v6/multiparty"
	"github.com/tuneinsight/lattigo/v6/multiparty/mpckks"
	"github.com/tuneinsight/lattigo/v6/ring"
	"github.com/tuneinsight/lattigo/v6/schemes/ckks"
	"github.com/tuneinsight/lattigo/v6/utils/bignum"
	"github.com/tuneinsight/lattigo/v6/utils/sampling"

	"verifsim/catalog"
	"verifsim/core"
)

// C16, approximate scheme.

type c16CKKS struct {
	params   ckks.Parameters
	enc      *ckks.Encoder
	lambda   int
	prec     uint
	logSlots int
	logBound uint
	minLevel int
}

func c16RunCKKS(ctx *core.RunCtx) {
	ch := ctx.Ch
	var cp ckks.Parameters
	var spec catalog.RLWESpec
	for try := 0; ; try++ {
		spec = catalog.DrawRLWESpec(ch, catalog.SpecOpts{MinLogN: 5, MaxLogN: 8, MinQ: 3, MaxQ: 6, MinP: 0, MaxP: 2, MinBits: 36, MaxBits: 58})
		logScale := 20 + ch.Draw("log-scale", 16)
		rt := ring.Standard
		if ch.Chance("conjugate-invariant", 1, 3) {
			rt = ring.ConjugateInvariant
		}
		spec.RingType = rt
		key := fmt.Sprintf("ckks/%s/S%d", spec.Key(), logScale)
		s := spec
		c := ctx.Cached(key, func(*core.Xoshiro) any {
			p, err := ckks.NewParametersFromLiteral(ckks.ParametersLiteral{LogN: s.LogN, LogQ: s.LogQ, LogP: s.LogP, LogDefaultScale: logScale, RingType: rt})
			if err != nil {
				return err
			}
			return &p
		})
		if p, ok := c.(*ckks.Parameters); ok {
			cp = *p
			ctx.Event("config ckks %s logscale=%d", spec, logScale)
			break
		}
		if try > 20 {
			ctx.Harness("no ckks parameter set: %v", c)
		}
	}
	params := cp.Parameters
	d := newDeploy(ctx, params)
	sc := &c16CKKS{params: cp, prec: 128}
	sc.enc = ckks.NewEncoder(cp, sc.prec)
	sc.logSlots = ch.Draw("log-slots", cp.LogMaxSlots()+1)
	if sc.logSlots < cp.LogMaxSlots() {
		ctx.Count("probe.sparse-slots", 1)
	}
	// input
	slots := 1 << sc.logSlots
	m := make([]*bignum.Complex, slots)
	g := core.NewXoshiro(uint64(ch.Draw("msg-seed", 1<<16)))
	rnd := func() float64 { return float64(int64(g.Next()>>11))/float64(1<<52) - 1 } // [-1,1)
	for i := range m {
		im := rnd()
		if cp.RingType() == ring.ConjugateInvariant {
			im = 0
		}
		m[i] = &bignum.Complex{bignum.NewFloat(rnd(), sc.prec), bignum.NewFloat(im, sc.prec)}
	}
	pt := ckks.NewPlaintext(cp, params.MaxLevelQ())
	pt.LogDimensions.Cols = sc.logSlots
	if ch.Bool("non-default-scale") {
		f := new(big.Float).SetPrec(128).Set(&pt.Scale.Value)
		f.Mul(f, new(big.Float).SetFloat64(1+float64(1+ch.Draw("scale-factor", 200))/64))
		pt.Scale = rlwe.NewScale(f)
	}
	if err := sc.enc.Encode(m, pt); err != nil {
		ctx.Harness("ckks encode: %v", err)
	}
	ct, err := ckks.NewEncryptor(cp, d.ideal).EncryptNew(pt)
	if err != nil {
		ctx.Harness("ckks encrypt: %v", err)
	}
	// minimum level for share conversion; the security parameter is drawn so
	// that logBound + log2(n) falls within a few bits of log2(Q_l) for a drawn
	// level l (the boundary where the minimum level flips), or freely
	lambda := 10 + ch.Draw("lambda", 40)
	if ch.Chance("lambda-at-boundary", 2, 3) {
		l := ch.Draw("boundary-level", params.MaxLevelQ()+1)
		logQ := float64(params.RingQ().ModulusAtLevel[l].BitLen())
		sf, _ := ct.Scale.Value.Float64()
		lambda = int(logQ) - int(math.Ceil(math.Log2(sf))) - int(math.Ceil(math.Log2(float64(d.n)))) - 2 + ch.Draw("boundary-delta", 4)
		// with a single bit of statistical security the mask bound 2^logBound = 2 * scale leaves no room for
		// a message of magnitude sqrt(2) below half of the modulus: two bits are the least meaningful value
		if lambda < 2 {
			lambda = 2
		}
		ctx.Count("probe.security-parameter-at-level-boundary", 1)
	}
	var ok bool
	sc.lambda = lambda
	sc.minLevel, sc.logBound, ok = mpckks.GetMinimumLevelForRefresh(lambda, ct.Scale, d.n, cp.Q())
	if ok && sc.minLevel <= params.MaxLevelQ() {
		// contract of the minimum level: the sum of n masks below 2^logBound fits below Q at that level
		need := new(big.Int).Lsh(big.NewInt(int64(d.n)), sc.logBound)
		ctx.Count("oracle.minimum-level-contract", 1)
		if need.Cmp(params.RingQ().ModulusAtLevel[sc.minLevel]) > 0 {
			ctx.Fail("contract", "ckks.GetMinimumLevelForRefresh|level-too-low", "GetMinimumLevelForRefresh(lambda=%d, scale=2^%.1f, n=%d) returned level %d with logBound %d, but n*2^logBound exceeds Q at that level (%d bits)", lambda, math.Log2(func() float64 { f, _ := ct.Scale.Value.Float64(); return f }()), d.n, sc.minLevel, sc.logBound, params.RingQ().ModulusAtLevel[sc.minLevel].BitLen())
			return
		}
	}
	level := params.MaxLevelQ()
	if ok && sc.minLevel <= params.MaxLevelQ() {
		level = sc.minLevel + ch.Draw("input-level-above-min", params.MaxLevelQ()-sc.minLevel+1)
	} else {
		ok = false
		level = ch.Draw("input-level", params.MaxLevelQ()+1)
	}
	if level < ct.Level() {
		ct.Resize(ct.Degree(), level)
	}
	ctx.Event("input level=%d minLevel=%d logBound=%d ok=%v logSlots=%d N=%d active=%d sigma=%g", level, sc.minLevel, sc.logBound, ok, sc.logSlots, d.N, d.n, d.sigma)
	faults0 := func() int64 {
		return ctx.Stats["fault.delay-reorder"] + ctx.Stats["fault.duplicate-delivery"] + ctx.Stats["fault.share-serialized-in-transit"] + ctx.Stats["fault.party-crash"]
	}
	ninst := 1 + ch.Draw("ninst", 3)
	for k := 0; k < ninst; k++ {
		okk := true
		w := []int{2, 2, 2, 3, 3, 3}
		if !ok {
			w = []int{2, 2, 2, 0, 0, 0}
			ctx.Count("probe.not-enough-levels-for-share-conversion", 1)
		}
		switch ch.Weighted("protocol", w) {
		case 0:
			okk = d.runKeySwitch(d.maybeCoeffDomain(ct), false)
		case 1:
			okk = d.runKeySwitch(d.maybeCoeffDomain(ct), true)
		case 2:
			okk = d.runPublicKeySwitch(d.maybeCoeffDomain(ct))
		case 3:
			okk = sc.runE2S(d, ct)
		case 4:
			okk = sc.runRefresh(d, ct, m, false)
		default:
			okk = sc.runRefresh(d, ct, m, true)
		}
		if !okk {
			return
		}
	}
	if faults0() > 0 && ctx.Stats["oracle.message-model"] > 0 {
		ctx.Nontrivial = true
	}
}

func (sc *c16CKKS) dslots(ct *rlwe.Ciphertext) int {
	n := ct.Slots()
	if sc.params.RingType() == ring.Standard {
		n *= 2
	}
	return n
}

// runE2S: encryption-to-shares and back, checked in the coefficient domain with hard bounds.
func (sc *c16CKKS) runE2S(d *c16Deploy, ct *rlwe.Ciphertext) bool {
	ctx, ch, cp := d.ctx, d.ctx.Ch, sc.params
	params := d.params
	level := ct.Level()
	ringQ := params.RingQ().AtLevel(level)
	e2sLevel := sc.minLevel + ch.Draw("e2s-level", level-sc.minLevel+1)
	re := ringQ.AtLevel(e2sLevel)
	dsl := sc.dslots(ct)
	gap := params.N() / dsl
	e2s0, err := mpckks.NewEncToShareProtocol(cp, d.noise)
	if err != nil {
		ctx.Fail("protocol", "ckks.EncToShare|constructor", "NewEncToShareProtocol failed: %v", err)
		return false
	}
	s2e0, err := mpckks.NewShareToEncProtocol(cp, d.noise)
	if err != nil {
		ctx.Fail("protocol", "ckks.ShareToEnc|constructor", "NewShareToEncProtocol failed: %v", err)
		return false
	}
	e2s := make([]mpckks.EncToShareProtocol, d.n)
	s2e := make([]mpckks.ShareToEncProtocol, d.n)
	secret := make([]multiparty.AdditiveShareBigint, d.n)
	// additive shares are allocated for the slots of the ciphertext or, one run in three, with room
	// to spare (an object allocated for more slots, up to the maximum, used for a sparser
	// ciphertext): the protocol works on the coefficients the ciphertext defines
	shareLogSlots := ct.LogSlots()
	if room := cp.LogMaxSlots() - ct.LogSlots(); room > 0 && ch.Chance("share-with-room", 1, 3) {
		shareLogSlots += 1 + ch.Draw("share-room", room)
		ctx.Count("probe.share-with-room", 1)
	}
	pub := make([]any, d.n)
	c1 := re.NewPoly()
	c1.CopyLvl(e2sLevel, ct.Value[1])
	half := new(big.Int).Lsh(big.NewInt(1), sc.logBound-1)
	for i := 0; i < d.n; i++ {
		if i == 0 {
			e2s[i], s2e[i] = e2s0, s2e0
		} else if ch.Bool("proto-by-shallowcopy") {
			e2s[i], s2e[i] = e2s0.ShallowCopy(), s2e0.ShallowCopy()
		} else {
			e2s[i], _ = mpckks.NewEncToShareProtocol(cp, d.noise)
			s2e[i], _ = mpckks.NewShareToEncProtocol(cp, d.noise)
		}
		secret[i] = mpckks.NewAdditiveShare(cp, shareLogSlots)
		ps := e2s[i].AllocateShare(e2sLevel)
		var gerr error
		pk, site, msg := core.Protect(func() { gerr = e2s[i].GenShare(d.sks[i], sc.logBound, ct, &secret[i], &ps) })
		if pk || gerr != nil {
			ctx.Fail("protocol", "ckks.EncToShare.GenShare", "GenShare (level %d >= minimum %d, logBound %d) failed: panic=%v %s %s err=%v", e2sLevel, sc.minLevel, sc.logBound, pk, site, msg, gerr)
			return false
		}
		// the mask must lie in the declared range
		for k := 0; k < dsl; k++ {
			if secret[i].Value[k].CmpAbs(half) > 0 {
				ctx.Fail("contract", "ckks.EncToShare|mask-range", "mask coefficient %s exceeds 2^(logBound-1) = %s", secret[i].Value[k].String(), half.String())
				return false
			}
		}
		// smudging: e = public + embed(M_i) - c1*s_i
		mq := re.NewPoly()
		re.SetCoefficientsBigint(secret[i].Value[:dsl], mq)
		rlwe.NTTSparseAndMontgomery(re, ct.MetaData, mq)
		e := re.NewPoly()
		re.Add(ps.Value, mq, e)
		t := re.NewPoly()
		re.MulCoeffsMontgomery(c1, d.sks[i].Value.Q, t)
		re.Sub(e, t, e)
		re.INTT(e, e)
		if !d.smudge(polyCentered(re, e), "ckks.EncToShare", nil) {
			return false
		}
		pub[i] = &ps
	}
	agg, ok := netAggregate(ctx, d.ksOps(&e2s0.KeySwitchProtocol, e2sLevel), pub)
	if !ok {
		return false
	}
	fin := mpckks.NewAdditiveShare(cp, shareLogSlots)
	pk, site, msg := core.Protect(func() { e2s[0].GetShare(&secret[0], *agg.(*multiparty.KeySwitchShare), ct, &fin) })
	if pk {
		ctx.Fail("panic", "ckks.EncToShare.GetShare", "GetShare panicked in %s: %s", site, msg)
		return false
	}
	// a party that holds no mask (secretShare == nil) obtains x - sum(M_i); the value it is
	// handed must stay what it is when the protocol object is used again
	{
		pubOnly := mpckks.NewAdditiveShare(cp, shareLogSlots)
		pk, site, msg := core.Protect(func() { e2s[0].GetShare(nil, *agg.(*multiparty.KeySwitchShare), ct, &pubOnly) })
		if pk {
			ctx.Fail("panic", "ckks.EncToShare.GetShare(nil)", "GetShare without own share panicked in %s: %s", site, msg)
			return false
		}
		snap := make([]*big.Int, dsl)
		for k := range snap {
			snap[k] = new(big.Int).Set(pubOnly.Value[k])
		}
		// second use of the same protocol object with another aggregate
		other := mpckks.NewAdditiveShare(cp, shareLogSlots)
		e2s[0].GetShare(nil, *pub[0].(*multiparty.KeySwitchShare), ct, &other)
		ctx.Count("oracle.returned-share-not-aliased", 1)
		for k := range snap {
			if snap[k].Cmp(pubOnly.Value[k]) != 0 {
				ctx.Fail("aliasing", "ckks.EncToShare.GetShare|result-aliases-scratch", "the share returned by GetShare(nil, ...) changed when the protocol object was used again (coefficient %d: %s -> %s)", k, snap[k].String(), pubOnly.Value[k].String())
				return false
			}
		}
		// consistency of the two entry points: pubOnly + M_0 == GetShare(&M_0, ...)
		for k := 0; k < dsl; k++ {
			t := new(big.Int).Add(pubOnly.Value[k], secret[0].Value[k])
			if t.Cmp(fin.Value[k]) != 0 {
				ctx.Fail("message", "ckks.EncToShare.GetShare|entry-points-disagree", "GetShare(nil) + own mask differs from GetShare(own mask) at coefficient %d", k)
				return false
			}
		}
	}
	secret[0] = fin
	// sum of shares == centred raw plaintext at the gap positions, up to n*shareB
	lowCt := ct.CopyNew()
	lowCt.Resize(lowCt.Degree(), e2sLevel)
	raw := decryptRaw(params, lowCt, d.ideal)
	bound := new(big.Int).Mul(d.shareB, big.NewInt(int64(d.n)))
	Ql := re.ModulusAtLevel[e2sLevel]
	sum := make([]*big.Int, dsl)
	pick := make([]*big.Int, dsl)
	for k := 0; k < dsl; k++ {
		sum[k] = new(big.Int)
		for i := range secret {
			sum[k].Add(sum[k], secret[i].Value[k])
		}
		pick[k] = raw[k*gap]
	}
	ctx.Count("oracle.message-model", 1)
	ctx.Event("ckks.EncToShare ct-level=%d e2s-level=%d n=%d", level, e2sLevel, d.n)
	if mm := maxAbsDiff(sum, pick, Ql); mm.Cmp(bound) > 0 {
		ctx.Fail("message", "ckks.EncToShare|shares-sum", "the additive shares of %d parties differ from the encrypted plaintext by %s > n*bound = %s (e2s level %d)", d.n, mm.String(), bound.String(), e2sLevel)
		return false
	}
	// back to an encryption at the maximum level
	maxLevel := params.MaxLevelQ()
	crsKey := make([]byte, 32)
	core.NewXoshiro(uint64(ch.Draw("crs-key", 1<<16))).Fill(crsKey)
	crs, _ := sampling.NewKeyedPRNG(crsKey)
	crp := s2e0.SampleCRP(maxLevel, crs)
	c0 := make([]any, d.n)
	for i := 0; i < d.n; i++ {
		cs := s2e[i].AllocateShare(maxLevel)
		var gerr error
		pk, site, msg := core.Protect(func() { gerr = s2e[i].GenShare(d.sks[i], crp, ct.MetaData, secret[i], &cs) })
		if pk || gerr != nil {
			ctx.Fail("protocol", "ckks.ShareToEnc.GenShare", "GenShare failed: panic=%v %s %s err=%v", pk, site, msg, gerr)
			return false
		}
		c0[i] = &cs
	}
	agg2, ok := netAggregate(ctx, d.ksOps(&s2e0.KeySwitchProtocol, maxLevel), c0)
	if !ok {
		return false
	}
	out := ckks.NewCiphertext(cp, 1, maxLevel)
	*out.MetaData = *ct.MetaData
	var gerr error
	pk, site, msg = core.Protect(func() { gerr = s2e0.GetEncryption(*agg2.(*multiparty.KeySwitchShare), crp, out) })
	if pk || gerr != nil {
		ctx.Fail("protocol", "ckks.ShareToEnc.GetEncryption", "GetEncryption failed: panic=%v %s %s err=%v", pk, site, msg, gerr)
		return false
	}
	if !outputOwnsStorage(ctx, "ckks.ShareToEnc.GetEncryption", out, &crp) {
		return false
	}
	rawOut := decryptRaw(params, out, d.ideal)
	pickOut := make([]*big.Int, dsl)
	for k := range pickOut {
		pickOut[k] = rawOut[k*gap]
	}
	ctx.Count("oracle.message-model", 1)
	if mm := maxAbsDiff(pickOut, sum, params.RingQ().ModulusAtLevel[maxLevel]); mm.Cmp(bound) > 0 {
		ctx.Fail("message", "ckks.ShareToEnc|re-encryption", "re-encrypting the shares of %d parties at the maximum level gives a plaintext that differs from the shared one by %s > n*bound = %s", d.n, mm.String(), bound.String())
		return false
	}
	// nothing but noise outside the embedded positions
	for k, v := range rawOut {
		if k%gap != 0 && v.CmpAbs(bound) > 0 {
			ctx.Fail("message", "ckks.ShareToEnc|sparse-embedding", "coefficient %d (outside the %d embedded positions) of the re-encryption is %s > %s", k, dsl, v.String(), bound.String())
			return false
		}
	}
	return true
}

// decodeCmp decodes ct under the ideal secret and returns the largest slot distance to want.
func (sc *c16CKKS) decodeCmp(ctx *core.RunCtx, ct *rlwe.Ciphertext, sk *rlwe.SecretKey, want []*bignum.Complex) (float64, string) {
	have := make([]*bignum.Complex, len(want))
	for i := range have {
		have[i] = bignum.NewComplex()
	}
	var err error
	pk, site, msg := core.Protect(func() { err = sc.enc.Decode(ckks.NewDecryptor(sc.params, sk).DecryptNew(ct), have) })
	if pk {
		return math.Inf(1), fmt.Sprintf("decoding panicked in %s: %s", site, msg)
	}
	if err != nil {
		return math.Inf(1), fmt.Sprintf("decoding failed: %v", err)
	}
	worst := 0.0
	for i := range want {
		dr, _ := new(big.Float).Sub(have[i][0], want[i][0]).Float64()
		di, _ := new(big.Float).Sub(have[i][1], want[i][1]).Float64()
		if x := math.Hypot(dr, di); x > worst || math.IsNaN(x) {
			worst = x
			if math.IsNaN(x) {
				worst = math.Inf(1)
			}
		}
	}
	return worst, ""
}

// runRefresh: collective refresh / masked linear transformation, slot-domain oracle with a hard tolerance.
func (sc *c16CKKS) runRefresh(d *c16Deploy, ct *rlwe.Ciphertext, m []*bignum.Complex, withTransform bool) bool {
	ctx, ch, cp := d.ctx, d.ctx.Ch, sc.params
	params := d.params
	level := ct.Level()
	e2sLevel := sc.minLevel + ch.Draw("e2s-level", level-sc.minLevel+1)
	// output parameters: the input ones, or (parameter switching) another modulus chain and default scale over the
	// same ring, with the parties' secrets for that chain
	cpOut, sksOut, idealOut, scOut := cp, d.sks, d.ideal, sc
	if ch.Chance("switch-parameters", 1, 3) {
		logNOut := cp.LogN()
		if ch.Chance("larger-output-ring", 1, 3) {
			logNOut++
			ctx.Count("probe.output-ring-of-larger-degree", 1)
		}
		spec := catalog.DrawRLWESpec(ch, catalog.SpecOpts{MinLogN: logNOut, MaxLogN: logNOut, MinQ: 1, MaxQ: 4, MinP: 0, MaxP: 1, MinBits: 42, MaxBits: 58})
		spec.RingType = cp.RingType()
		logScale := 20 + ch.Draw("out-log-scale", 12)
		key := fmt.Sprintf("ckks/%s/S%d", spec.Key(), logScale)
		c := ctx.Cached(key, func(*core.Xoshiro) any {
			p, err := ckks.NewParametersFromLiteral(ckks.ParametersLiteral{LogN: spec.LogN, LogQ: spec.LogQ, LogP: spec.LogP, LogDefaultScale: logScale, RingType: spec.RingType})
			if err != nil {
				return err
			}
			return &p
		})
		if p, ok := c.(*ckks.Parameters); ok && p.RingType() == cp.RingType() {
			cpOut = *p
			kgen := rlwe.NewKeyGenerator(cpOut.Parameters)
			sksOut = make([]*rlwe.SecretKey, d.n)
			for i := range sksOut {
				sksOut[i] = kgen.GenSecretKeyNew()
			}
			idealOut = addSK(cpOut.Parameters, sksOut)
			scOut = &c16CKKS{params: cpOut, prec: sc.prec, enc: ckks.NewEncoder(cpOut, sc.prec)}
			ctx.Count("probe.parameter-switching", 1)
		}
	}
	paramsOut := cpOut.Parameters
	outLevel := ch.Draw("output-level", paramsOut.MaxLevelQ()+1)
	name := "ckks.Refresh"
	var tf *mpckks.MaskedLinearTransformationFunc
	want := make([]*bignum.Complex, len(m))
	for i := range m {
		want[i] = &bignum.Complex{new(big.Float).SetPrec(sc.prec).Set(m[i][0]), new(big.Float).SetPrec(sc.prec).Set(m[i][1])}
	}
	desc := "none"
	mixed := 0
	if withTransform {
		name = "ckks.MaskedTransform"
		slots := len(m)
		g := core.NewXoshiro(uint64(ch.Draw("lin-seed", 1<<16)))
		kind := ch.Draw("lin-kind", 3)
		mulRe := make([]float64, slots)
		perm := make([]int, slots)
		for i := range perm {
			perm[i], mulRe[i] = i, 1
		}
		switch kind {
		case 0:
			k := float64(int(g.Next()%7)) - 3
			for i := range mulRe {
				mulRe[i] = k / 4
			}
			desc = fmt.Sprintf("scalar*%g", k/4)
		case 1:
			for i := range mulRe {
				mulRe[i] = float64(int64(g.Next()>>11))/float64(1<<52) - 1
			}
			desc = "slotwise-real-multiplication"
		default:
			for i := range perm {
				perm[i] = int(g.Next() % uint64(slots))
			}
			desc = "slot-selection"
		}
		f := func(c []*bignum.Complex) {
			out := make([]*bignum.Complex, len(c))
			for i := range c {
				src := c[perm[i]]
				pr := src[0].Prec()
				if pr < 128 {
					pr = 128
				}
				k := new(big.Float).SetPrec(pr).SetFloat64(mulRe[i])
				out[i] = &bignum.Complex{new(big.Float).SetPrec(pr).Mul(src[0], k), new(big.Float).SetPrec(pr).Mul(src[1], k)}
			}
			for i := range c {
				c[i][0].Set(out[i][0])
				c[i][1].Set(out[i][1])
			}
		}
		tf = &mpckks.MaskedLinearTransformationFunc{Decode: true, Encode: true, Func: f}
		if kind == 0 && ch.Bool("transform-no-decode") {
			// a real scalar acts alike on slots and on coefficients: the transform may skip decoding and encoding
			tf.Decode, tf.Encode = false, false
			ctx.Count("probe.transform-without-decode-encode", 1)
			desc += " (no decode/encode)"
		}
		if tf.Decode && sc.logSlots == cp.LogMaxSlots() && cpOut.LogN() == cp.LogN() && ch.Chance("transform-mixed-flags", 2, 3) {
			// the flags both ways (with all slots in use, where a coefficient-domain plaintext has one meaning):
			// decode only - the function of the slot values comes back as the coefficients of an un-batched
			// plaintext (real parts, then imaginary parts); encode only - the coefficients of an un-batched input
			// are taken as slot values, the function of them is encoded
			if ch.Bool("decode-only") {
				mixed = 1
				tf.Encode = false
				ctx.Count("probe.transform-decode-only", 1)
			} else {
				mixed = 2
				tf.Decode = false
				// (in the conjugate-invariant ring the coefficients are the real parts alone)
				cs := make([]*big.Float, 2*slots)
				if cp.RingType() == ring.ConjugateInvariant {
					cs = cs[:slots]
				}
				for i := range m {
					cs[i] = m[i][0]
					if cp.RingType() != ring.ConjugateInvariant {
						cs[i+slots] = m[i][1]
					}
				}
				pt2 := ckks.NewPlaintext(cp, level)
				*pt2.MetaData = *ct.MetaData
				pt2.IsBatched = false
				if err := sc.enc.Encode(cs, pt2); err != nil {
					ctx.Harness("ckks coefficient encode: %v", err)
				}
				ct2, err := ckks.NewEncryptor(cp, d.ideal).EncryptNew(pt2)
				if err != nil || ct2.IsBatched {
					ctx.Harness("ckks encrypt: %v", err)
				}
				ct = ct2
				ctx.Count("probe.transform-encode-only", 1)
			}
			desc += fmt.Sprintf(" (decode=%v encode=%v)", tf.Decode, tf.Encode)
		}
		f(want)
	}
	// the transform works on masks of logBound bits: its arithmetic precision must exceed that
	// (the library's own tests pass the mask size as precision)
	tprec := uint(128)
	if p := sc.logBound + 96; p > tprec {
		tprec = p
	}
	// with other output parameters the protocol is built for them, or built for the input parameters and re-targeted
	viaWithParams := !paramsOut.Equal(&params) && ch.Bool("protocol-by-WithParams")
	mkProto := func() (mpckks.MaskedLinearTransformationProtocol, error) {
		if viaWithParams {
			p, err := mpckks.NewMaskedLinearTransformationProtocol(cp, cp, tprec, d.noise)
			if err != nil {
				return p, err
			}
			return p.WithParams(cpOut), nil
		}
		return mpckks.NewMaskedLinearTransformationProtocol(cp, cpOut, tprec, d.noise)
	}
	if viaWithParams {
		ctx.Count("probe.protocol-retargeted-by-WithParams", 1)
	}
	mt0, err := mkProto()
	if err != nil {
		ctx.Fail("protocol", name+"|constructor", "NewMaskedLinearTransformationProtocol failed: %v", err)
		return false
	}
	crsKey := make([]byte, 32)
	core.NewXoshiro(uint64(ch.Draw("crs-key", 1<<16))).Fill(crsKey)
	crs, _ := sampling.NewKeyedPRNG(crsKey)
	crp := mt0.SampleCRP(outLevel, crs)
	shares := make([]any, d.n)
	ctSnap := hashPoly(hashPoly(1, ct.Value[0]), ct.Value[1])
	mdSnap := *ct.MetaData
	for i := 0; i < d.n; i++ {
		p := mt0
		if i > 0 && ch.Bool("proto-by-shallowcopy") {
			p = mt0.ShallowCopy()
		} else if i > 0 {
			p, _ = mkProto()
		}
		s := p.AllocateShare(e2sLevel, outLevel)
		var gerr error
		pk, site, msg := core.Protect(func() { gerr = p.GenShare(d.sks[i], sksOut[i], sc.logBound, ct, crp, tf, &s) })
		if pk || gerr != nil {
			ctx.Fail("protocol", name+".GenShare", "GenShare (ct level %d, e2s level %d >= minimum %d, output level %d) failed: panic=%v %s %s err=%v", level, e2sLevel, sc.minLevel, outLevel, pk, site, msg, gerr)
			return false
		}
		shares[i] = &s
	}
	if hashPoly(hashPoly(1, ct.Value[0]), ct.Value[1]) != ctSnap || !mdSnap.Equal(ct.MetaData) {
		ctx.Fail("inputs", name+".GenShare|input-modified", "GenShare modified the input ciphertext")
		return false
	}
	ops := &shareOps{
		name: "RefreshShare",
		clone: func(s any) any {
			x := s.(*multiparty.RefreshShare)
			return &multiparty.RefreshShare{EncToShareShare: multiparty.KeySwitchShare{Value: *x.EncToShareShare.Value.CopyNew()},
				ShareToEncShare: multiparty.KeySwitchShare{Value: *x.ShareToEncShare.Value.CopyNew()}, MetaData: *x.MetaData.CopyNew()}
		},
		alloc: func() any { s := mt0.AllocateShare(e2sLevel, outLevel); return &s },
		agg: func(a, b, out any) error {
			return mt0.AggregateShares(a.(*multiparty.RefreshShare), b.(*multiparty.RefreshShare), out.(*multiparty.RefreshShare))
		},
		eq: func(a, b any) (bool, string) {
			x, y := a.(*multiparty.RefreshShare), b.(*multiparty.RefreshShare)
			if ok, w := eqPoly(params.RingQ(), x.EncToShareShare.Value, y.EncToShareShare.Value); !ok {
				return false, "e2s part " + w
			}
			return eqPoly(paramsOut.RingQ(), x.ShareToEncShare.Value, y.ShareToEncShare.Value)
		},
		ser: func(ctx *core.RunCtx, s any) (any, bool) {
			return transit(ctx, s.(*multiparty.RefreshShare), new(multiparty.RefreshShare), true, "RefreshShare")
		},
	}
	agg, ok := netAggregate(ctx, ops, shares)
	if !ok {
		return false
	}
	ra := agg.(*multiparty.RefreshShare)
	if !ra.MetaData.Equal(ct.MetaData) {
		// every share carries the metadata of the ciphertext; the aggregate, whatever receiver it was formed in
		// (one of the operands or a newly allocated share, as an aggregator without a share of its own does),
		// is a share of the same refresh and the finalisation checks its metadata
		ctx.Fail("aggregate", name+"|RefreshShare-metadata-lost", "the aggregate of %d refresh shares does not carry the metadata of the shares (scale %v vs %v): Transform / Finalize would reject it", d.n, &ra.MetaData.Scale.Value, &ct.MetaData.Scale.Value)
		return false
	}
	in := ct.CopyNew()
	out := in
	if ch.Bool("distinct-output") || !paramsOut.Equal(&params) {
		out = ckks.NewCiphertext(cpOut, 1, ch.Draw("out-alloc-level", paramsOut.MaxLevelQ()+1))
		if ch.Bool("dirty-output-metadata") {
			out.Scale = rlwe.NewScale(12345)
			out.IsBatched = false
			out.LogDimensions.Cols = 0
		}
	}
	var terr error
	pk, site, msg := core.Protect(func() { terr = mt0.Transform(in, tf, crp, *ra, out) })
	if pk {
		ctx.Fail("panic", name+".Transform", "Transform panicked in %s: %s", site, msg)
		return false
	}
	if terr != nil {
		ctx.Fail("protocol", name+".Transform|error", "Transform failed on valid inputs (ct level %d, e2s level %d, output level %d): %v", level, e2sLevel, outLevel, terr)
		return false
	}
	if !outputOwnsStorage(ctx, name+".Transform", out, &crp) {
		return false
	}
	ctx.Event("%s ct-level=%d e2s-level=%d out-level=%d n=%d f=%s", name, level, e2sLevel, outLevel, d.n, desc)
	if !outputOwnsMetadata(ctx, name, in, out) {
		return false
	}
	if out.Level() != outLevel {
		ctx.Fail("metadata", name+"|output-level", "output is at level %d, requested %d", out.Level(), outLevel)
		return false
	}
	def := cpOut.DefaultScale()
	if out.Scale.Cmp(def) != 0 {
		ctx.Fail("metadata", name+"|output-scale", "output scale is %v, the parameters' default scale %v was expected", &out.Scale.Value, &def.Value)
		return false
	}
	if mixed != 0 && out.IsBatched != (mixed == 2) {
		ctx.Fail("metadata", name+"|output-encoding-flag", "a transform with decode=%v encode=%v of an input with IsBatched=%v returned an output with IsBatched=%v", tf.Decode, tf.Encode, ct.IsBatched, out.IsBatched)
		return false
	}
	if out.LogSlots() != ct.LogSlots() || !out.IsNTT || out.IsBatched != ct.IsBatched && (tf == nil || tf.Decode == tf.Encode) {
		ctx.Fail("metadata", name+"|output-metadata", "output metadata (slots 2^%d, NTT %v, batched %v) does not match the input's (slots 2^%d, batched %v)", out.LogSlots(), out.IsNTT, out.IsBatched, ct.LogSlots(), ct.IsBatched)
		return false
	}
	// hard slot-domain tolerance: n_ring * (coefficient error) / scale on both sides
	nRing := float64(paramsOut.N())
	sb, _ := new(big.Float).SetInt(d.shareB).Float64()
	inScale, _ := ct.Scale.Value.Float64()
	outScale, _ := def.Value.Float64()
	fresh := float64(2*params.N())*float64(d.B) + float64(d.B) + 2 // fresh encryption noise of the input (sk encryption: B) plus encoding rounding
	tol := nRing*(fresh+float64(d.n)*sb)/inScale + nRing*(float64(d.n)*sb+float64(d.n)+4)/outScale + 1e-9
	ctx.Count("oracle.message-model", 1)
	var dist float64
	var w string
	if mixed == 1 {
		raw := decryptRaw(paramsOut, out, idealOut)
		sl := len(want)
		for i := range want {
			parts := []struct {
				k int
				v *big.Float
			}{{i, want[i][0]}}
			if cp.RingType() == ring.Standard {
				parts = append(parts, struct {
					k int
					v *big.Float
				}{i + sl, want[i][1]})
			}
			for _, pr := range parts {
				h := new(big.Float).SetPrec(256).SetInt(raw[pr.k])
				h.Quo(h, &def.Value)
				x, _ := h.Sub(h, pr.v).Float64()
				if x = math.Abs(x); x > dist || math.IsNaN(x) {
					dist = x
				}
			}
		}
	} else {
		dist, w = scOut.decodeCmp(ctx, out, idealOut, want)
	}
	if w != "" {
		ctx.Fail("message", name+"|decode", "%s", w)
		return false
	}
	if tol > 0.25 {
		ctx.Count("probe.exactness-budget-skipped", 1)
		return true
	}
	// The masked plaintext x - sum(M_i) is taken as an integer (centred modulo Q at the decryption level): it is the
	// intended one unless it wraps, i.e. unless |x| + n*2^(logBound-1) reaches Q/2. The minimum level guarantees
	// n*2^logBound <= Q and leaves the message to the statistical parameter: a coefficient wraps with probability
	// about 2^-lambda. The message is asserted when the modulus leaves room for it deterministically, or when lambda
	// makes a wrap a 2^-40 event over all coefficients; otherwise only the other oracles apply to the run.
	{
		need := new(big.Int).Lsh(big.NewInt(int64(d.n)), sc.logBound)
		sc4, _ := new(big.Float).Mul(&ct.Scale.Value, big.NewFloat(4)).Int(nil)
		need.Add(need, sc4)
		if need.Cmp(params.RingQ().ModulusAtLevel[e2sLevel]) >= 0 && sc.lambda < 40+params.LogN()+1 {
			ctx.Count("probe.masks-may-wrap(statistical correctness only)", 1)
			return true
		}
	}
	// the output can only represent the message if scale * |message| stays below half of its modulus:
	// coefficients of the encoded message are bounded by scale * sqrt(2) * (a small factor for the drawn
	// vectors); without three bits of room the comparison says nothing about the protocol
	if float64(paramsOut.RingQ().ModulusAtLevel[outLevel].BitLen()) < math.Log2(outScale)+3 {
		ctx.Count("probe.message-does-not-fit-output-modulus", 1)
		return true
	}
	if dist > tol {
		ctx.Fail("message", name+"|result", "%s by %d parties (ct level %d, decryption level %d, output level %d, input scale 2^%.2f, f=%s): a slot differs from the expected value by %.3g > hard tolerance %.3g", name, d.n, level, e2sLevel, outLevel, math.Log2(inScale), desc, dist, tol)
		return false
	}
	return true
}
