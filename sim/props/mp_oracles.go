package props

import (
	"fmt"
	"math/big"

	"github.com/tuneinsight/lattigo/v6/core/rlwe"
	"github.com/tuneinsight/lattigo/v6/ring"
	"github.com/tuneinsight/lattigo/v6/ring/ringqp"
)

// Oracles that use the simulator's knowledge of every secret.

// gadgetNoise recovers, for every row (i,j) of a degree-1 gadget ciphertext
// (b, a), the error e = b + a*skOut - P*2^(j*base)*skIn[rows of digit i] and
// returns the largest |coefficient| of the CRT-reconstructed (over Q and P)
// centred error. A structurally wrong key (digit on the wrong row, wrong
// secret, rows that disagree across moduli) reconstructs to something of the
// order of QP.
func gadgetNoise(params rlwe.Parameters, g *rlwe.GadgetCiphertext, skIn ring.Poly, skOut ringqp.Poly) (max *big.Int, where string) {
	levelQ, levelP := g.LevelQ(), g.LevelP()
	rqp := params.RingQP().AtLevel(levelQ, levelP)
	ringQ := rqp.RingQ
	N := ringQ.N()
	P := big.NewInt(1)
	lp := 0
	if levelP > -1 {
		P = rqp.RingP.ModulusAtLevel[levelP]
		lp = levelP
	}
	max = new(big.Int)
	t := rqp.NewPoly()
	w := ringQ.NewPoly()
	vals := make([]*big.Int, N)
	for i := range vals {
		vals[i] = new(big.Int)
	}
	skO := ringqp.Poly{Q: skOut.Q, P: skOut.P}
	for i := range g.Value {
		for j := range g.Value[i] {
			if len(g.Value[i][j]) != 2 {
				return new(big.Int).Lsh(big.NewInt(1), 4000), fmt.Sprintf("row [%d][%d] has %d components", i, j, len(g.Value[i][j]))
			}
			b, a := g.Value[i][j][0], g.Value[i][j][1]
			rqp.MulCoeffsMontgomery(a, skO, t)
			rqp.Add(t, b, t)
			// gadget term on the rows of digit i
			scal := new(big.Int).Lsh(big.NewInt(1), uint(j*g.BaseTwoDecomposition))
			scal.Mul(scal, P)
			ringQ.MulScalarBigint(skIn, scal, w)
			for k := 0; k < lp+1; k++ {
				idx := i*(lp+1) + k
				if idx >= levelQ+1 {
					break
				}
				q := ringQ.SubRings[idx].Modulus
				row, sub := t.Q.Coeffs[idx], w.Coeffs[idx]
				for x := 0; x < N; x++ {
					row[x] = (row[x]%q + q - sub[x]%q) % q
				}
			}
			rqp.IMForm(t, t)
			rqp.INTT(t, t)
			rqp.PolyToBigintCentered(t, 1, vals)
			for x, v := range vals {
				if v.CmpAbs(max) > 0 {
					max.Abs(v)
					where = fmt.Sprintf("row [%d][%d] coefficient %d", i, j, x)
				}
			}
		}
	}
	return
}

// ksNoiseBound is a hard upper bound on the inf-norm of the noise a gadget
// product with this key adds, given the largest row error E of the key:
// sum_{i,j} N*D_ij*E / P plus the rounding of the division by P. D_ij bounds
// the digit the evaluator multiplies row (i,j) with.
func ksNoiseBound(params rlwe.Parameters, g *rlwe.GadgetCiphertext, level int, E *big.Int, secretL1 int64) *big.Int {
	levelQ, levelP := g.LevelQ(), g.LevelP()
	if level > levelQ {
		level = levelQ
	}
	N := int64(params.N())
	lp := 0
	P := big.NewInt(1)
	if levelP > -1 {
		lp = levelP
		P = params.RingP().ModulusAtLevel[levelP]
	}
	sum := new(big.Int)
	for i := range g.Value {
		// digit magnitude
		var D *big.Int
		if g.BaseTwoDecomposition != 0 && len(g.Value[i]) >= 1 && levelP <= 0 {
			D = new(big.Int).Lsh(big.NewInt(1), uint(g.BaseTwoDecomposition))
		} else {
			D = big.NewInt(int64(lp + 2))
			for k := 0; k < lp+1; k++ {
				idx := i*(lp+1) + k
				if idx >= levelQ+1 {
					break
				}
				D.Mul(D, new(big.Int).SetUint64(params.Q()[idx]))
			}
		}
		for range g.Value[i] {
			term := new(big.Int).Mul(D, E)
			term.Mul(term, big.NewInt(N))
			sum.Add(sum, term)
		}
	}
	sum.Quo(sum, P)
	sum.Lsh(sum, 1)
	round := big.NewInt(4 * int64(lp+3) * (1 + secretL1))
	return sum.Add(sum, round)
}

// decryptRaw returns c0 + c1*s (+ c2*s^2) as centred big integers in the
// coefficient domain at the ciphertext's level.
func decryptRaw(params rlwe.Parameters, ct *rlwe.Ciphertext, sk *rlwe.SecretKey) []*big.Int {
	level := ct.Level()
	ringQ := params.RingQ().AtLevel(level)
	acc := ringQ.NewPoly()
	tmp := ringQ.NewPoly()
	vs := make([]ring.Poly, len(ct.Value))
	for i := range ct.Value {
		vs[i] = ringQ.NewPoly()
		vs[i].CopyLvl(level, ct.Value[i])
		if !ct.IsNTT {
			ringQ.NTT(vs[i], vs[i])
		}
	}
	// Horner in s (sk is NTT + Montgomery)
	acc.CopyLvl(level, vs[len(vs)-1])
	for i := len(vs) - 2; i >= 0; i-- {
		ringQ.MulCoeffsMontgomery(acc, sk.Value.Q, tmp)
		ringQ.Add(tmp, vs[i], acc)
	}
	ringQ.INTT(acc, acc)
	out := make([]*big.Int, ringQ.N())
	for i := range out {
		out[i] = new(big.Int)
	}
	ringQ.PolyToBigintCentered(acc, 1, out)
	return out
}

// maxAbsDiff returns max_i |a_i - b_i| centred modulo Q.
func maxAbsDiff(a, b []*big.Int, Q *big.Int) *big.Int {
	m := new(big.Int)
	half := new(big.Int).Rsh(Q, 1)
	d := new(big.Int)
	for i := range a {
		d.Sub(a[i], b[i])
		d.Mod(d, Q)
		if d.Cmp(half) > 0 {
			d.Sub(d, Q)
		}
		if d.CmpAbs(m) > 0 {
			m.Abs(d)
		}
	}
	return m
}

// automorphBig applies X -> X^galEl to a coefficient vector (negacyclic).
func automorphBig(v []*big.Int, galEl uint64) []*big.Int {
	N := uint64(len(v))
	out := make([]*big.Int, N)
	mask := 2*N - 1
	for i := uint64(0); i < N; i++ {
		idx := (i * galEl) & mask
		if idx >= N {
			out[idx-N] = new(big.Int).Neg(v[i])
		} else {
			out[idx] = new(big.Int).Set(v[i])
		}
	}
	return out
}

// secretL1 bounds sum |s_i| of an ideal secret made of n ternary keys.
func secretL1(params rlwe.Parameters, nParties int) int64 {
	return int64(params.N()) * int64(nParties)
}
