// simcheck is the single binary of the verification machinery: parent driver,
// worker, replay.
package main

import (
	"flag"
	"fmt"
	"os"
	"path/filepath"
	"runtime"
	"strconv"
	"strings"
	"time"

	"verifsim/core"
	_ "verifsim/props"
)

func envSeed() uint64 {
	if s := os.Getenv("VERIF_SEED"); s != "" {
		if v, err := strconv.ParseInt(s, 0, 64); err == nil {
			return uint64(v)
		}
		if v, err := strconv.ParseUint(s, 0, 64); err == nil {
			return v
		}
	}
	return 20260927
}

func main() {
	if len(os.Args) < 2 {
		fmt.Println("usage: simcheck worker|drive|replay ...")
		os.Exit(2)
	}
	switch os.Args[1] {
	case "worker":
		fs := flag.NewFlagSet("worker", flag.ExitOnError)
		known := fs.String("known", "", "known findings file")
		race := fs.Bool("race", false, "race binary")
		fs.Parse(os.Args[2:])
		core.WorkerMain(*known, *race)
	case "drive":
		fs := flag.NewFlagSet("drive", flag.ExitOnError)
		prop := fs.String("prop", "", "property id")
		tier := fs.String("tier", "quick", "quick|thorough")
		phases := fs.String("phases", "", "comma separated workload keys; suffix :race for the race binary; :N for run count")
		verif := fs.String("verif", "/verif", "verif dir")
		workers := fs.Int("workers", runtime.NumCPU(), "worker processes")
		wall := fs.Duration("wall", 0, "wall clock cap")
		evid := fs.String("evidence", "", "evidence path override")
		fs.Parse(os.Args[2:])
		self, _ := os.Executable()
		dir := filepath.Dir(self)
		o := &core.DriveOpts{Public: *prop, Tier: *tier, Seed: envSeed(), VerifDir: *verif, EvidenceTo: *evid}
		if *wall == 0 {
			*wall = 20 * time.Minute
			if *tier == "thorough" {
				*wall = 3 * time.Hour
			}
		}
		o.WallCap = *wall
		if *phases == "" {
			*phases = *prop
		}
		for _, ps := range strings.Split(*phases, ",") {
			parts := strings.Split(ps, ":")
			ph := core.Phase{Key: parts[0], Bin: filepath.Join(dir, "simcheck"), Workers: *workers}
			for _, a := range parts[1:] {
				if a == "race" {
					ph.Race = true
					ph.Bin = filepath.Join(dir, "simcheck-race")
				} else if n, err := strconv.Atoi(a); err == nil {
					ph.Runs = n
				}
			}
			o.Phases = append(o.Phases, ph)
			if p := core.Lookup(ph.Key); p != nil {
				if d, ok := p.(core.Describer); ok {
					ds := d.Describe()
					if o.Level == "" {
						o.Level = ds.Level
						o.Rule = ds.Rule
					} else {
						o.Rule += " || " + ds.Rule
					}
					o.Real = append(o.Real, ds.Real...)
					o.Stub = append(o.Stub, ds.Stub...)
					o.Assume = append(o.Assume, ds.Assume...)
				}
			}
		}
		if o.Level == "" {
			o.Level = "exploration"
		}
		os.Exit(core.Drive(o))
	case "selftest":
		fs := flag.NewFlagSet("selftest", flag.ExitOnError)
		verif := fs.String("verif", "/verif", "verif dir")
		nseeds := fs.Int("seeds", 40, "number of seeds")
		nruns := fs.Int("runs", 3, "runs per seed")
		fs.Parse(os.Args[2:])
		self, _ := os.Executable()
		dir := filepath.Dir(self)
		var phases []core.Phase
		for _, k := range []string{"C08", "C09", "C10", "C14", "C15", "C16", "C17"} {
			phases = append(phases, core.Phase{Key: k, Bin: filepath.Join(dir, "simcheck")})
		}
		phases = append(phases, core.Phase{Key: "C10R", Bin: filepath.Join(dir, "simcheck-race"), Race: true})
		var seeds []uint64
		for i := 0; i < *nseeds; i++ {
			seeds = append(seeds, core.SplitMix64(uint64(i)+envSeed()))
		}
		os.Exit(core.SelfTest(*verif, phases, seeds, *nruns))
	case "replay":
		fs := flag.NewFlagSet("replay", flag.ExitOnError)
		verif := fs.String("verif", "/verif", "verif dir")
		fs.Parse(os.Args[2:])
		self, _ := os.Executable()
		dir := filepath.Dir(self)
		bins := map[bool]string{false: filepath.Join(dir, "simcheck"), true: filepath.Join(dir, "simcheck-race")}
		os.Exit(core.Replay(fs.Arg(0), bins, *verif))
	default:
		fmt.Println("unknown command", os.Args[1])
		os.Exit(2)
	}
}
