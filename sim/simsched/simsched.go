// Package simsched runs caller tasks as real goroutines of which exactly one
// is runnable at any time; the next one is drawn from the run's chooser at every
// step boundary. The hand-offs between scheduler and tasks are hidden from the
// race runtime (core.RaceHide), so the race detector sees no happens-before
// edge between tasks although their execution is serialised and repeatable:
// any two conflicting accesses of different tasks are reported whatever order
// the schedule ran them in. Only the final join is a visible synchronisation.
package simsched

import (
	"sync"

	"verifsim/core"
)

// Step is one uninterrupted unit of a task (one library operation).
type Step func()

type task struct {
	id    int
	steps []Step
	wake  chan struct{}
	// panicked is written by the task only and read after the join
	panicked any
}

// Result describes the executed schedule.
type Result struct {
	Order    []int // task id of every executed step
	Switches int
}

//go:norace
func hiddenSend(c chan struct{}) {
	core.RaceHide()
	c <- struct{}{}
	core.RaceShow()
}

//go:norace
func hiddenRecv(c chan struct{}) {
	core.RaceHide()
	<-c
	core.RaceShow()
}

// Run executes the programs (one per task) under a schedule drawn from ch.
// It returns after all tasks finished. A panic inside a step is captured and
// re-raised on the caller's goroutine after the join.
func Run(ch *core.Chooser, programs [][]Step) Result {
	n := len(programs)
	tasks := make([]*task, n)
	yield := make(chan struct{})
	var wg sync.WaitGroup
	for i := range programs {
		t := &task{id: i, steps: programs[i], wake: make(chan struct{})}
		tasks[i] = t
		wg.Add(1)
		go func() {
			defer wg.Done()
			for k := range t.steps {
				hiddenRecv(t.wake)
				func() {
					defer func() {
						if r := recover(); r != nil && t.panicked == nil {
							in, site, st := core.ClassifyPanic(3)
							t.panicked = core.TaskPanic{Value: r, InLibrary: in, Site: site, Stack: st, Task: t.id}
						}
					}()
					t.steps[k]()
				}()
				hiddenSend(yield)
			}
		}()
	}
	res := Result{}
	last := -1
	// the scheduler keeps its own account of how far each task is
	done := make([]int, n)
	for {
		var runnable []int
		for i := range tasks {
			if done[i] < len(programs[i]) {
				runnable = append(runnable, i)
			}
		}
		if len(runnable) == 0 {
			break
		}
		pick := runnable[ch.Draw("next-task", len(runnable))]
		if pick != last && last >= 0 {
			res.Switches++
		}
		last = pick
		res.Order = append(res.Order, pick)
		hiddenSend(tasks[pick].wake)
		hiddenRecv(yield)
		done[pick]++
	}
	// the only visible synchronisation: everything the tasks wrote happens before what follows
	wg.Wait()
	for _, t := range tasks {
		if t.panicked != nil {
			panic(t.panicked)
		}
	}
	return res
}
