// Package core holds the parts every simulation engine shares: the single
// seeded source of choices (Chooser), the deterministic replacement of the
// process entropy source, the event log, the run context handed to property
// workloads, and the parent/worker driver with shrinking and replay.
package core

// SplitMix64 is the usual 64-bit mixer; used to derive sub-seeds.
//
//go:norace
func SplitMix64(x uint64) uint64 {
	x += 0x9e3779b97f4a7c15
	z := x
	z = (z ^ (z >> 30)) * 0xbf58476d1ce4e5b9
	z = (z ^ (z >> 27)) * 0x94d049bb133111eb
	return z ^ (z >> 31)
}

// HashString is FNV-1a 64 followed by a mix; used to derive seeds from labels.
func HashString(s string) uint64 {
	h := uint64(0xcbf29ce484222325)
	for i := 0; i < len(s); i++ {
		h ^= uint64(s[i])
		h *= 0x100000001b3
	}
	return SplitMix64(h)
}

// Xoshiro is xoshiro256**.
type Xoshiro struct{ s [4]uint64 }

// NewXoshiro seeds the generator from one integer.
//
//go:norace
func NewXoshiro(seed uint64) *Xoshiro {
	x := &Xoshiro{}
	x.Seed(seed)
	return x
}

// Seed re-seeds the generator.
//
//go:norace
func (x *Xoshiro) Seed(seed uint64) {
	for i := range x.s {
		seed = SplitMix64(seed)
		x.s[i] = seed
	}
}

//go:norace
func rotl(x uint64, k uint) uint64 { return (x << k) | (x >> (64 - k)) }

// Next returns the next 64 bits.
//
//go:norace
func (x *Xoshiro) Next() uint64 {
	s := &x.s
	r := rotl(s[1]*5, 7) * 9
	t := s[1] << 17
	s[2] ^= s[0]
	s[3] ^= s[1]
	s[1] ^= s[2]
	s[0] ^= s[3]
	s[2] ^= t
	s[3] = rotl(s[3], 45)
	return r
}

// Fill fills p with generator output.
//
//go:norace
func (x *Xoshiro) Fill(p []byte) {
	for i := 0; i < len(p); {
		v := x.Next()
		for j := 0; j < 8 && i < len(p); j, i = j+1, i+1 {
			p[i] = byte(v)
			v >>= 8
		}
	}
}
