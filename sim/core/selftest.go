package core

import (
	"fmt"
	"sort"
)

// SelfTest is the determinism audit: every (seed, run) of every workload is
// executed in three fresh worker processes at GOMAXPROCS 1, 4 and 16; event-log
// hash and choice-trace hash must agree. Any difference is a machinery defect.
func SelfTest(verifDir string, phases []Phase, seeds []uint64, runsPerSeed int) int {
	bad := 0
	total := 0
	for _, ph := range phases {
		var procs []*proc
		for _, mp := range []string{"1", "4", "16"} {
			env := append(workerEnv(ph), "GOMAXPROCS="+mp)
			pr, err := startProc(ph.Bin, workerArgs(ph, verifDir), env)
			if err != nil {
				fmt.Println("INFRA:", err)
				return 2
			}
			procs = append(procs, pr)
		}
		nruns := 0
		var diffs []string
		for _, seed := range seeds {
			for run := 0; run < runsPerSeed; run++ {
				var hs [][2]uint64
				for _, pr := range procs {
					res, died, _, err := pr.do(&Job{ID: run, Prop: ph.Key, Tier: "quick", Seed: seed, Run: run, NoKnown: false})
					if err != nil {
						fmt.Println("INFRA:", err)
						return 2
					}
					if died {
						hs = append(hs, [2]uint64{0, 0})
						continue
					}
					hs = append(hs, [2]uint64{res.LogHash, res.TraceHash})
				}
				nruns++
				if hs[0] != hs[1] || hs[0] != hs[2] {
					diffs = append(diffs, fmt.Sprintf("seed=%d run=%d %x/%x/%x", seed, run, hs[0][0], hs[1][0], hs[2][0]))
				}
			}
		}
		for _, pr := range procs {
			pr.kill()
		}
		sort.Strings(diffs)
		total += nruns
		if len(diffs) > 0 {
			bad += len(diffs)
			fmt.Printf("selftest %s: %d of %d executions diverged across processes: %v\n", ph.Key, len(diffs), nruns, diffs[:min(len(diffs), 5)])
		} else {
			fmt.Printf("selftest %s: %d (seed,run) pairs x 3 processes (GOMAXPROCS 1/4/16) identical\n", ph.Key, nruns)
		}
	}
	if bad > 0 {
		return 2
	}
	fmt.Printf("selftest ok: %d executions compared\n", total)
	return 0
}
