//go:build !race

package core

// RaceBuild reports whether the binary carries the race runtime.
const RaceBuild = false

// RaceHide is a no-op without the race runtime.
func RaceHide() {}

// RaceShow is a no-op without the race runtime.
func RaceShow() {}
