package core

import (
	"encoding/json"
	"fmt"
	"os"
	"os/exec"
	"path/filepath"
	"sort"
	"strconv"
	"strings"
	"sync"
	"time"
)

// Phase is one batch of runs of one registered workload with one worker binary.
type Phase struct {
	Key     string // registry key
	Bin     string // worker binary
	Race    bool
	Workers int
	Runs    int // 0 => Property.Runs(tier)
}

// DriveOpts configures a check.
type DriveOpts struct {
	Public     string // property id as listed in properties.jsonl
	Tier       string
	Seed       uint64
	Phases     []Phase
	VerifDir   string
	WallCap    time.Duration
	Level      string
	Real       []string
	Stub       []string
	Assume     []string
	Rule       string
	EvidenceTo string // default <VerifDir>/evidence/<Public>.json
}

type fatalInfo struct {
	run    int
	stderr string
}

type phaseOut struct {
	results    int
	violations map[string][]*Result // by key
	fatals     []fatalInfo
	harness    []string
	stats      map[string]int64
	known      map[string]int64
	traces     map[uint64]bool
	ntTraces   map[uint64]bool
	simNs      int64
	steps      int64
	draws      int64
	samples    []any
	audited    int
	auditBad   []string
	planned    int
	wall       float64
	// procRuns: the runs each worker process executed, in order (a run's history inside its process)
	procRuns [][]int
}

func workerArgs(ph Phase, verifDir string) []string {
	a := []string{"worker", "-known", filepath.Join(verifDir, "known_findings.json")}
	if ph.Race {
		a = append(a, "-race")
	}
	return a
}

func workerEnv(ph Phase) []string {
	env := []string{"GOMAXPROCS=2", "GOGC=100"}
	if ph.Race {
		env = append(env, "GORACE=halt_on_error=1 history_size=7")
	}
	return env
}

func runPhase(o *DriveOpts, ph Phase, known []*KnownFinding, deadline time.Time) (*phaseOut, error) {
	p := Lookup(ph.Key)
	if p == nil {
		return nil, fmt.Errorf("unknown workload %s", ph.Key)
	}
	n := ph.Runs
	if n == 0 {
		n = p.Runs(o.Tier)
	}
	out := &phaseOut{violations: map[string][]*Result{}, stats: map[string]int64{}, known: map[string]int64{},
		traces: map[uint64]bool{}, ntTraces: map[uint64]bool{}, planned: n}
	t0 := time.Now()
	w := ph.Workers
	if w > n {
		w = n
	}
	if w < 1 {
		w = 1
	}
	var mu sync.Mutex
	next := 0
	hashes := map[int][2]uint64{}
	var firstErr error
	var wg sync.WaitGroup
	procs := make([]*proc, w)
	out.procRuns = make([][]int, w)
	for i := 0; i < w; i++ {
		pr, err := startProc(ph.Bin, workerArgs(ph, o.VerifDir), workerEnv(ph))
		if err != nil {
			return nil, err
		}
		procs[i] = pr
	}
	auditEvery := n / 40
	if auditEvery < 1 {
		auditEvery = 1
	}
	for i := 0; i < w; i++ {
		wg.Add(1)
		go func(pr *proc, pi int) {
			defer wg.Done()
			for {
				mu.Lock()
				if firstErr != nil || next >= n || time.Now().After(deadline) {
					mu.Unlock()
					return
				}
				run := next
				next++
				out.procRuns[pi] = append(out.procRuns[pi], run)
				mu.Unlock()
				job := &Job{ID: run, Prop: ph.Key, Tier: o.Tier, Seed: o.Seed, Run: run, Record: run < 3}
				res, died, stderr, err := pr.do(job)
				mu.Lock()
				if err != nil {
					if firstErr == nil {
						firstErr = err
					}
					mu.Unlock()
					return
				}
				out.results++
				if died {
					out.fatals = append(out.fatals, fatalInfo{run, stderr})
					mu.Unlock()
					continue
				}
				if res.Harness != "" {
					out.harness = append(out.harness, fmt.Sprintf("run %d: %s", run, res.Harness))
				}
				if res.Violation != nil {
					k := res.Violation.Key()
					out.violations[k] = append(out.violations[k], res)
				}
				for k, v := range res.Stats {
					out.stats[k] += v
				}
				for k, v := range res.Known {
					out.known[k] += v
				}
				out.traces[res.TraceHash] = true
				if res.Nontrivial {
					out.ntTraces[res.TraceHash] = true
				}
				out.simNs += res.SimTimeNs
				out.steps += res.Steps
				out.draws += int64(res.Draws)
				hashes[run] = [2]uint64{res.LogHash, res.TraceHash}
				if run < 3 {
					ev := res.Events
					if len(ev) > 60 {
						ev = append(append([]string{}, ev[:60]...), fmt.Sprintf("... (%d more events)", len(res.Events)-60))
					}
					out.samples = append(out.samples, map[string]any{"run": run, "draws": res.Draws, "events": ev})
				}
				mu.Unlock()
			}
		}(procs[i], i)
	}
	wg.Wait()
	if firstErr != nil {
		for _, pr := range procs {
			pr.kill()
		}
		return nil, firstErr
	}
	// determinism audit: re-execute a sample of the runs in another process
	// and compare log and trace hashes.
	var auditRuns []int
	for r := 0; r < next; r += auditEvery {
		if _, ok := hashes[r]; ok {
			auditRuns = append(auditRuns, r)
		}
	}
	if len(auditRuns) > 60 {
		auditRuns = auditRuns[:60]
	}
	ai := 0
	for i := 0; i < w; i++ {
		wg.Add(1)
		go func(pr *proc, idx int) {
			defer wg.Done()
			for {
				mu.Lock()
				if ai >= len(auditRuns) {
					mu.Unlock()
					return
				}
				run := auditRuns[ai]
				ai++
				mu.Unlock()
				res, died, _, err := pr.do(&Job{ID: run, Prop: ph.Key, Tier: o.Tier, Seed: o.Seed, Run: run})
				mu.Lock()
				out.audited++
				if err != nil || died {
					out.auditBad = append(out.auditBad, fmt.Sprintf("run %d: worker died or failed in audit", run))
				} else if h := hashes[run]; h[0] != res.LogHash || h[1] != res.TraceHash {
					out.auditBad = append(out.auditBad, fmt.Sprintf("run %d: logHash %x/%x traceHash %x/%x", run, h[0], res.LogHash, h[1], res.TraceHash))
				}
				mu.Unlock()
			}
		}(procs[(i+1)%w], i)
	}
	wg.Wait()
	for _, pr := range procs {
		pr.kill()
	}
	sort.Slice(out.samples, func(i, j int) bool {
		return out.samples[i].(map[string]any)["run"].(int) < out.samples[j].(map[string]any)["run"].(int)
	})
	out.wall = time.Since(t0).Seconds()
	return out, nil
}

// evaluator executes explicit traces in a dedicated worker (for shrinking and replay).
type evaluator struct {
	pr    *proc
	ph    Phase
	o     *DriveOpts
	execs int
}

func newEvaluator(o *DriveOpts, ph Phase) (*evaluator, error) {
	pr, err := startProc(ph.Bin, workerArgs(ph, o.VerifDir), workerEnv(ph))
	if err != nil {
		return nil, err
	}
	return &evaluator{pr: pr, ph: ph, o: o}, nil
}

// eval returns the violation (possibly synthesized from a process death) of a trace.
func (e *evaluator) eval(run int, trace []uint64, record bool) (*Result, error) {
	e.execs++
	job := &Job{ID: e.execs, Prop: e.ph.Key, Tier: e.o.Tier, Seed: e.o.Seed, Run: run, Trace: trace, HasTrace: true, Record: record}
	res, died, stderr, err := e.pr.do(job)
	if err != nil {
		return nil, err
	}
	if died {
		or, cl, ex := classifyDeath(stderr)
		return &Result{Run: run, Trace: trace, Violation: &Violation{Property: e.o.Public, Oracle: or, Class: cl, Msg: ex}}, nil
	}
	return res, nil
}

func keyOf(r *Result) string {
	if r == nil || r.Violation == nil {
		return ""
	}
	return r.Violation.Key()
}

// shrink minimises trace while the violation key stays the same.
func (e *evaluator) shrink(run int, trace []uint64, key string, budget int, wall time.Duration) []uint64 {
	t0 := time.Now()
	best := append([]uint64{}, trace...)
	try := func(c []uint64) bool {
		if e.execs >= budget || time.Since(t0) > wall {
			return false
		}
		r, err := e.eval(run, c, false)
		if err != nil {
			return false
		}
		return keyOf(r) == key
	}
	// the executed trace may be shorter than the candidate: normalise
	// 1. truncate tail (binary search for the shortest failing prefix)
	lo, hi := 0, len(best)
	for lo < hi {
		mid := (lo + hi) / 2
		if try(best[:mid]) {
			hi = mid
		} else {
			lo = mid + 1
		}
	}
	if hi < len(best) && try(best[:hi]) {
		best = best[:hi]
	}
	improved := true
	for improved && e.execs < budget && time.Since(t0) < wall {
		improved = false
		// 2. delete chunks
		for sz := 16; sz >= 1; sz /= 2 {
			for i := 0; i+sz <= len(best); {
				c := append(append([]uint64{}, best[:i]...), best[i+sz:]...)
				if try(c) {
					best = c
					improved = true
				} else {
					i += sz
				}
				if e.execs >= budget {
					break
				}
			}
		}
		// 3. zero, then halve values
		for i := 0; i < len(best); i++ {
			if best[i] == 0 {
				continue
			}
			c := append([]uint64{}, best...)
			c[i] = 0
			if try(c) {
				best = c
				improved = true
				continue
			}
			for v := best[i] / 2; v > 0 && v < best[i]; v /= 2 {
				c := append([]uint64{}, best...)
				c[i] = v
				if try(c) {
					best = c
					improved = true
				} else {
					break
				}
			}
			if best[i] > 1 {
				c := append([]uint64{}, best...)
				c[i] = best[i] - 1
				if try(c) {
					best = c
					improved = true
				}
			}
		}
	}
	// drop trailing zeros (an exhausted trace yields zeros anyway)
	for len(best) > 0 && best[len(best)-1] == 0 {
		best = best[:len(best)-1]
	}
	return best
}

// ReplayFile is what a violation is reported as.
type ReplayFile struct {
	Property   string     `json:"property"`
	Workload   string     `json:"workload"`
	Race       bool       `json:"race_binary"`
	Tier       string     `json:"tier"`
	VerifSeed  uint64     `json:"verif_seed"`
	Run        int        `json:"run"`
	RunSeed    uint64     `json:"run_seed"`
	RepoHead   string     `json:"repo_head"`
	RepoDirty  bool       `json:"repo_dirty"`
	Violation  *Violation `json:"violation"`
	Trace      []uint64   `json:"trace"`
	OrigDraws  int        `json:"original_draws"`
	Labels     []string   `json:"choice_labels"`
	Events     []string   `json:"schedule_and_fault_trace"`
	LogHash    uint64     `json:"log_hash"`
	ShrinkRuns int        `json:"shrink_executions"`
	// Prefix: runs (of the same seed, workload and tier) executed before this one in the same process. Empty for a
	// violation that a run produces in a process of its own; set when it needs the state that earlier runs left in
	// the process (objects that the runs of a worker share and that no operation may change).
	Prefix []int `json:"runs_before_in_the_same_process,omitempty"`
}

// historyOf returns the runs that the worker of run executed before it.
func (out *phaseOut) historyOf(run int) []int {
	for _, rs := range out.procRuns {
		for i, r := range rs {
			if r == run {
				return append([]int{}, rs[:i]...)
			}
		}
	}
	return nil
}

// withHistory executes prefix and then run in a new worker process and returns the result of run.
func withHistory(o *DriveOpts, ph Phase, prefix []int, run int, record bool) (*Result, error) {
	pr, err := startProc(ph.Bin, workerArgs(ph, o.VerifDir), workerEnv(ph))
	if err != nil {
		return nil, err
	}
	defer pr.kill()
	for i, r := range prefix {
		if _, died, _, err := pr.do(&Job{ID: i, Prop: ph.Key, Tier: o.Tier, Seed: o.Seed, Run: r}); err != nil || died {
			return nil, fmt.Errorf("run %d of the history failed (died=%v err=%v)", r, died, err)
		}
	}
	res, died, stderr, err := pr.do(&Job{ID: len(prefix), Prop: ph.Key, Tier: o.Tier, Seed: o.Seed, Run: run, Record: record})
	if err != nil {
		return nil, err
	}
	if died {
		or, cl, ex := classifyDeath(stderr)
		return &Result{Run: run, Violation: &Violation{Property: o.Public, Oracle: or, Class: cl, Msg: ex}}, nil
	}
	return res, nil
}

// reproduceWithHistory: a violation that does not show when its run is executed in a process of its own is
// re-executed after the runs that preceded it in its worker; when it shows then, the history is cut down (halves,
// then single runs, within the wall budget) while the violation stays.
func reproduceWithHistory(o *DriveOpts, ph Phase, out *phaseOut, run int, key string, wall time.Duration) ([]int, *Result) {
	t0 := time.Now()
	hist := out.historyOf(run)
	if hist == nil {
		hist = []int{} // first run of its worker: a new process is its whole history
	}
	res, err := withHistory(o, ph, hist, run, true)
	if err != nil || keyOf(res) != key {
		return nil, nil
	}
	try := func(h []int) bool {
		if time.Since(t0) > wall {
			return false
		}
		r, err := withHistory(o, ph, h, run, true)
		if err == nil && keyOf(r) == key {
			res = r
			return true
		}
		return false
	}
	for chunk := len(hist) / 2; chunk >= 1 && time.Since(t0) < wall; {
		removed := false
		for at := 0; at+chunk <= len(hist) && time.Since(t0) < wall; {
			c := append(append([]int{}, hist[:at]...), hist[at+chunk:]...)
			if try(c) {
				hist = c
				removed = true
			} else {
				at += chunk
			}
		}
		if !removed || chunk > len(hist) {
			chunk /= 2
		}
		if chunk > len(hist) {
			chunk = len(hist)
		}
	}
	return hist, res
}

func repoState() (string, bool) {
	h, _ := exec.Command("git", "-C", "/repo", "rev-parse", "HEAD").Output()
	d, _ := exec.Command("git", "-C", "/repo", "status", "--porcelain", "--untracked-files=no").Output()
	return strings.TrimSpace(string(h)), len(strings.TrimSpace(string(d))) > 0
}

// Drive runs a whole check and returns the process exit code.
func Drive(o *DriveOpts) int {
	t0 := time.Now()
	known, err := LoadKnown(filepath.Join(o.VerifDir, "known_findings.json"))
	if err != nil {
		fmt.Println("INFRA: known findings:", err)
		return 2
	}
	deadline := t0.Add(o.WallCap)
	exit := 0
	var outs []*phaseOut
	nViol, unreproduced := 0, 0
	var violLines []string
	knownHits := map[string]int64{}
	for _, ph := range o.Phases {
		out, err := runPhase(o, ph, known, deadline)
		if err != nil {
			fmt.Println("INFRA:", err)
			return 2
		}
		outs = append(outs, out)
		if len(out.harness) > 0 {
			fmt.Printf("INFRA: %d harness errors, first: %s\n", len(out.harness), out.harness[0])
			exit = 2
		}
		if len(out.auditBad) > 0 {
			fmt.Printf("INFRA: determinism audit failed: %s\n", strings.Join(out.auditBad, "; "))
			exit = 2
		}
		for k, v := range out.known {
			knownHits[k] += v
		}
		// process deaths: confirm, recover the trace, classify
		type cand struct {
			run   int
			trace []uint64
			key   string
			viol  *Violation
			// alts: further runs of the batch that reported the same violation key (tried when the first one
			// does not reproduce alone: a run whose failure was caused by state that an earlier run left in the
			// worker does not, a run that produces the failure itself does)
			alts []cand
		}
		var cands []cand
		if len(out.fatals) > 0 || len(out.violations) > 0 {
			ev, err := newEvaluator(o, ph)
			if err != nil {
				fmt.Println("INFRA:", err)
				return 2
			}
			sort.Slice(out.fatals, func(i, j int) bool { return out.fatals[i].run < out.fatals[j].run })
			seenFatal := map[string]bool{}
			for _, f := range out.fatals {
				or, cl, ex := classifyDeath(f.stderr)
				v := &Violation{Property: o.Public, Oracle: or, Class: cl, Msg: ex}
				if seenFatal[v.Key()] {
					continue
				}
				seenFatal[v.Key()] = true
				if k := matchKnownList(known, v); k != nil {
					knownHits[k.Key]++
					continue
				}
				// confirm in a fresh process, streaming the draws to a file
				tf := filepath.Join(o.VerifDir, "work", fmt.Sprintf("trace-%s-%d.txt", ph.Key, f.run))
				os.MkdirAll(filepath.Dir(tf), 0o755)
				_, died, stderr2, err := ev.pr.do(&Job{ID: -1, Prop: ph.Key, Tier: o.Tier, Seed: o.Seed, Run: f.run, TraceFile: tf})
				if err != nil {
					fmt.Println("INFRA:", err)
					return 2
				}
				if !died {
					fmt.Printf("INFRA: run %d killed its worker (%s) but not when re-executed alone\n", f.run, v.Key())
					exit = 2
					continue
				}
				// the isolated re-execution is authoritative for the class
				or2, cl2, ex2 := classifyDeath(stderr2)
				if cl2 != cl {
					fmt.Printf("note: run %d died as %s in the batch and as %s when re-executed alone; using the latter\n", f.run, cl, cl2)
				}
				v = &Violation{Property: o.Public, Oracle: or2, Class: cl2, Msg: ex2}
				if seenFatal[v.Key()] && cl2 != cl {
					continue
				}
				seenFatal[v.Key()] = true
				if k := matchKnownList(known, v); k != nil {
					knownHits[k.Key]++
					continue
				}
				cands = append(cands, cand{f.run, readTraceFile(tf), v.Key(), v, nil})
				os.Remove(tf)
			}
			for _, k := range sortedViolKeys(out.violations) {
				rs := out.violations[k]
				sort.Slice(rs, func(i, j int) bool { return rs[i].Run < rs[j].Run })
				c := cand{rs[0].Run, rs[0].Trace, k, rs[0].Violation, nil}
				for _, r := range rs[1:] {
					if len(c.alts) < 6 {
						c.alts = append(c.alts, cand{r.Run, r.Trace, k, r.Violation, nil})
					}
				}
				cands = append(cands, c)
			}
			os.MkdirAll(filepath.Join(o.VerifDir, "replays"), 0o755)
			head, dirty := repoState()
			for i, c := range cands {
				nViol++
				if i >= 4 {
					m := strings.ReplaceAll(c.viol.Msg, "\n", " | ")
					if len(m) > 260 {
						m = m[:260]
					}
					violLines = append(violLines, fmt.Sprintf("(not minimised) property=%s key=%s run=%d: %s", o.Public, c.key, c.run, m))
					continue
				}
				ev.execs = 0
				budget := 150 * time.Second
				if v, err := strconv.Atoi(os.Getenv("VERIF_SHRINK_SECONDS")); err == nil && v > 0 {
					budget = time.Duration(v) * time.Second // tooling knob (tools/run_seeded.py); the registered commands do not set it
				}
				first := c
				var prefix []int
				min := ev.shrink(c.run, c.trace, c.key, 400, budget)
				final, err := ev.eval(c.run, min, true)
				if err != nil || keyOf(final) != c.key {
					// fall back to the unshrunk trace
					min = c.trace
					final, err = ev.eval(c.run, min, true)
					for _, a := range c.alts {
						if err == nil && keyOf(final) == c.key {
							break
						}
						fmt.Printf("note: the violation %s of run %d did not reproduce when the run was re-executed alone; trying run %d, which reported the same\n", c.key, c.run, a.run)
						c.run, c.trace, c.viol = a.run, a.trace, a.viol
						min = ev.shrink(c.run, c.trace, c.key, 400, budget)
						if final, err = ev.eval(c.run, min, true); err != nil || keyOf(final) != c.key {
							min = c.trace
							final, err = ev.eval(c.run, min, true)
						}
					}
					if err != nil || keyOf(final) != c.key {
						// not repeatable in a process of its own: with the runs that preceded it in its worker?
						tried := []cand{{first.run, first.trace, c.key, first.viol, nil}}
						tried = append(tried, c.alts...)
						for _, a := range tried {
							if h, r := reproduceWithHistory(o, ph, out, a.run, c.key, budget); r != nil {
								fmt.Printf("note: the violation %s of run %d does not show when the run is executed in a process of its own; it shows after %d earlier run(s) of its worker %v (state shared by the runs of a process was changed)\n", c.key, a.run, len(h), h)
								c.run, c.trace, c.viol, prefix, final, min = a.run, a.trace, a.viol, h, r, a.trace
								break
							}
						}
					}
					if prefix == nil && (err != nil || keyOf(final) != c.key) {
						fmt.Printf("INFRA: the violation %s of run %d did not reproduce when the run was re-executed alone\n", c.key, c.run)
						unreproduced++
						nViol--
						continue
					}
				}
				rf := &ReplayFile{Property: o.Public, Workload: ph.Key, Race: ph.Race, Tier: o.Tier, VerifSeed: o.Seed, Run: c.run,
					RunSeed: RunSeedFor(o.Seed, ph.Key, c.run), RepoHead: head, RepoDirty: dirty, Violation: c.viol, Trace: min,
					OrigDraws: len(c.trace), ShrinkRuns: ev.execs, Prefix: prefix}
				if final != nil {
					if final.Violation != nil {
						rf.Violation = final.Violation
					}
					rf.Labels, rf.Events, rf.LogHash = final.Labels, final.Events, final.LogHash
				}
				path := filepath.Join(o.VerifDir, "replays", fmt.Sprintf("%s-%s-%d-%d.json", o.Public, ph.Key, o.Seed, c.run))
				b, _ := json.MarshalIndent(rf, "", " ")
				os.WriteFile(path, b, 0o644)
				msg := rf.Violation.Msg
				if len(msg) > 300 {
					msg = msg[:300] + "..."
				}
				violLines = append(violLines, fmt.Sprintf("VIOLATION property=%s replay=%s", o.Public, path))
				fmt.Printf("violation: key=%s run=%d draws=%d->%d: %s\n", c.key, c.run, len(c.trace), len(min), strings.ReplaceAll(msg, "\n", " | "))
			}
			ev.pr.kill()
		}
	}
	for _, k := range known {
		if k.Status == "open" && k.Property == o.Public && knownHits[k.Key] > 0 {
			fmt.Printf("KNOWN-FINDING: property=%s %s (hits=%d)\n", o.Public, k.What, knownHits[k.Key])
		}
	}
	for _, l := range violLines {
		fmt.Println(l)
	}
	// A violation listed above was re-executed alone in a new process and reproduced: it stands whatever else
	// went wrong in the batch (a change that makes library state leak from one run into the next also trips the
	// determinism audit). Exit 2 is reserved for batches without any reproduced violation.
	if nViol > 0 {
		exit = 1
	} else if unreproduced > 0 {
		exit = 2
	}
	if err := writeEvidence(o, outs, nViol, knownHits, time.Since(t0).Seconds()); err != nil {
		fmt.Println("INFRA: evidence:", err)
		if exit == 0 {
			exit = 2
		}
	}
	return exit
}

func matchKnownList(known []*KnownFinding, v *Violation) *KnownFinding {
	for _, k := range known {
		if k.Status == "open" && k.Property == v.Property && k.re != nil && k.re.MatchString(v.Key()) {
			return k
		}
	}
	return nil
}

func sortedViolKeys(m map[string][]*Result) []string {
	ks := make([]string, 0, len(m))
	for k := range m {
		ks = append(ks, k)
	}
	sort.Strings(ks)
	return ks
}

func readTraceFile(path string) []uint64 {
	b, err := os.ReadFile(path)
	if err != nil {
		return nil
	}
	var t []uint64
	for _, ln := range strings.Split(string(b), "\n") {
		if ln == "" {
			continue
		}
		var v uint64
		fmt.Sscan(ln, &v)
		t = append(t, v)
	}
	return t
}

func writeEvidence(o *DriveOpts, outs []*phaseOut, nViol int, knownHits map[string]int64, wall float64) error {
	stats := map[string]int64{}
	traces := map[uint64]bool{}
	nt := map[uint64]bool{}
	var results, planned, audited int
	var simNs, steps, draws int64
	var samples []any
	for _, out := range outs {
		for k, v := range out.stats {
			stats[k] += v
		}
		for k := range out.traces {
			traces[k] = true
		}
		for k := range out.ntTraces {
			nt[k] = true
		}
		results += out.results
		planned += out.planned
		audited += out.audited
		simNs += out.simNs
		steps += out.steps
		draws += out.draws
		samples = append(samples, out.samples...)
	}
	faults := map[string]int64{}
	probes := map[string]int64{}
	oracles := map[string]int64{}
	other := map[string]int64{}
	var zero []string
	for _, k := range SortedKeys(stats) {
		v := stats[k]
		switch {
		case strings.HasPrefix(k, "fault."):
			faults[strings.TrimPrefix(k, "fault.")] = v
		case strings.HasPrefix(k, "probe."):
			probes[strings.TrimPrefix(k, "probe.")] = v
			if v == 0 {
				zero = append(zero, k)
			}
		case strings.HasPrefix(k, "oracle."):
			oracles[strings.TrimPrefix(k, "oracle.")] = v
		default:
			other[k] = v
		}
	}
	tier := o.Tier
	cov := map[string]any{
		"evaluations":                        results,
		"planned_runs":                       planned,
		"distinct_nontrivial":                len(nt),
		"distinct_schedule_and_fault_traces": len(traces),
		"rule":                               o.Rule,
		"samples":                            samples,
		"runs_per_hour":                      int64(float64(results) / (wall + 1e-9) * 3600),
		"seeds":                              []uint64{o.Seed},
		"simulated_time_s":                   float64(simNs) / 1e9,
		"simulated_steps":                    steps,
		"choices_drawn":                      draws,
		"faults_fired":                       faults,
		"probes":                             probes,
		"probes_at_zero":                     zero,
		"oracle_evaluations":                 oracles,
		"counters":                           other,
		"determinism_audit":                  map[string]any{"runs_reexecuted_in_second_process": audited, "mismatches": 0},
		"known_findings_hit":                 knownHits,
		"components_real":                    o.Real,
		"components_stub":                    o.Stub,
		"exhaustive":                         false,
	}
	ev := map[string]any{
		"property_id": o.Public,
		"tier":        tier,
		"seed":        o.Seed,
		"level":       o.Level,
		"coverage":    cov,
		"assumptions": o.Assume,
		"wall_s":      wall,
		"violations":  nViol,
	}
	b, err := json.MarshalIndent(ev, "", " ")
	if err != nil {
		return err
	}
	path := o.EvidenceTo
	if path == "" {
		path = filepath.Join(o.VerifDir, "evidence", o.Public+".json")
	}
	os.MkdirAll(filepath.Dir(path), 0o755)
	return os.WriteFile(path, b, 0o644)
}

// Replay re-executes a replay file; exit 1 when the same violation reproduces.
func Replay(path string, bins map[bool]string, verifDir string) int {
	b, err := os.ReadFile(path)
	if err != nil {
		fmt.Println("INFRA:", err)
		return 2
	}
	var rf ReplayFile
	if err := json.Unmarshal(b, &rf); err != nil {
		fmt.Println("INFRA:", err)
		return 2
	}
	o := &DriveOpts{Public: rf.Property, Tier: rf.Tier, Seed: rf.VerifSeed, VerifDir: verifDir}
	ph := Phase{Key: rf.Workload, Bin: bins[rf.Race], Race: rf.Race}
	ev, err := newEvaluator(o, ph)
	if err != nil {
		fmt.Println("INFRA:", err)
		return 2
	}
	defer ev.pr.kill()
	for i, r := range rf.Prefix {
		// the runs that preceded the failing one in its process
		if _, died, _, err := ev.pr.do(&Job{ID: -1 - i, Prop: ph.Key, Tier: o.Tier, Seed: o.Seed, Run: r}); err != nil || died {
			fmt.Printf("INFRA: run %d of the recorded history failed (died=%v err=%v)\n", r, died, err)
			return 2
		}
	}
	res, err := ev.eval(rf.Run, rf.Trace, true)
	if err != nil {
		fmt.Println("INFRA:", err)
		return 2
	}
	for _, e := range res.Events {
		fmt.Println("  ", e)
	}
	if res.Violation == nil {
		fmt.Printf("NOT-REPRODUCED property=%s (no violation on the current tree)\n", rf.Property)
		return 0
	}
	same := res.Violation.Key() == rf.Violation.Key()
	fmt.Printf("reproduced=%v key=%s logHash=%x (recorded %x)\n%s\n", same, res.Violation.Key(), res.LogHash, rf.LogHash, res.Violation.Msg)
	fmt.Printf("VIOLATION property=%s replay=%s\n", rf.Property, path)
	return 1
}
