//go:build race

package core

import "runtime"

// RaceBuild reports whether the binary carries the race runtime.
const RaceBuild = true

// RaceHide opens a window that is invisible to the race runtime: no access is
// recorded and no synchronisation event creates a happens-before edge.
//
//go:norace
func RaceHide() { runtime.RaceDisable() }

// RaceShow closes the window opened by RaceHide.
//
//go:norace
func RaceShow() { runtime.RaceEnable() }
