package core

import (
	"math/big"
	"reflect"
	"regexp"
	"strings"
	"unsafe"
)

// Scratch poisoning: the fault that only a simulator can apply. Memory that by
// contract carries no information between calls (scratch buffers of
// evaluators, encoders, encryptors, protocols) is overwritten with seeded
// garbage; the result of the next operation must not change.

var scratchName = regexp.MustCompile(`(?i)^(buff?|tmp|pool)`)

// skipType: never descend into these (immutable context, keys, tables).
func skipType(t reflect.Type) bool {
	n := t.String()
	for _, s := range []string{"Parameters", "ring.Ring", "ringqp.Ring", "KeySet", "SecretKey", "PublicKey", "EvaluationKey", "GaloisKey", "RelinearizationKey", "SubRing", "Sampler", "PRNG", "sync.", "big.Int", "big.Float"} {
		if strings.Contains(n, s) {
			return true
		}
	}
	return false
}

// PoisonStats reports what was overwritten.
type PoisonStats struct {
	Fields int
	Bytes  int
	Names  map[string]int
}

// PoisonScratch overwrites every scratch field reachable from obj (a pointer).
func PoisonScratch(obj any, rng *Xoshiro) PoisonStats {
	st := PoisonStats{Names: map[string]int{}}
	seen := map[uintptr]bool{}
	v := reflect.ValueOf(obj)
	walk(v, rng, &st, seen, 0, false, "")
	return st
}

func settable(v reflect.Value) reflect.Value {
	if v.CanAddr() && !v.CanSet() {
		return reflect.NewAt(v.Type(), unsafe.Pointer(v.UnsafeAddr())).Elem()
	}
	return v
}

func walk(v reflect.Value, rng *Xoshiro, st *PoisonStats, seen map[uintptr]bool, depth int, inScratch bool, name string) {
	if depth > 12 || !v.IsValid() {
		return
	}
	v = settable(v)
	t := v.Type()
	if !inScratch && skipType(t) {
		return
	}
	if ts := t.String(); strings.Contains(ts, "MetaData") || ts == "big.Float" || ts == "big.Int" || ts == "rlwe.Scale" {
		return
	}
	switch v.Kind() {
	case reflect.Ptr:
		if v.IsNil() {
			return
		}
		p := v.Pointer()
		if seen[p] {
			return
		}
		seen[p] = true
		if inScratch {
			if bi, ok := v.Interface().(*big.Int); ok {
				bi.SetUint64(rng.Next())
				st.Bytes += 8
				return
			}
			if bf, ok := v.Interface().(*big.Float); ok {
				bf.SetFloat64(float64(int64(rng.Next()>>12)) / 7)
				st.Bytes += 8
				return
			}
		}
		walk(v.Elem(), rng, st, seen, depth+1, inScratch, name)
	case reflect.Interface:
		if v.IsNil() {
			return
		}
		e := v.Elem()
		// interface values are not addressable; descend into reference kinds only
		switch e.Kind() {
		case reflect.Ptr, reflect.Slice, reflect.Map:
			walk(e, rng, st, seen, depth+1, inScratch, name)
		}
	case reflect.Struct:
		for i := 0; i < v.NumField(); i++ {
			f := t.Field(i)
			in := inScratch || scratchName.MatchString(f.Name)
			if in && !inScratch {
				before := st.Bytes
				walk(v.Field(i), rng, st, seen, depth+1, true, f.Name)
				if st.Bytes > before {
					st.Fields++
					st.Names[f.Name] += st.Bytes - before
				}
				continue
			}
			walk(v.Field(i), rng, st, seen, depth+1, in, f.Name)
		}
	case reflect.Array:
		for i := 0; i < v.Len(); i++ {
			walk(v.Index(i), rng, st, seen, depth+1, inScratch, name)
		}
	case reflect.Slice:
		if v.IsNil() || v.Len() == 0 {
			return
		}
		if inScratch {
			switch t.Elem().Kind() {
			case reflect.Uint64:
				s := unsafe.Slice((*uint64)(unsafe.Pointer(v.Pointer())), v.Len())
				for i := range s {
					s[i] = rng.Next()
				}
				st.Bytes += 8 * len(s)
				return
			case reflect.Complex128:
				s := unsafe.Slice((*complex128)(unsafe.Pointer(v.Pointer())), v.Len())
				for i := range s {
					s[i] = complex(float64(int64(rng.Next()>>12)), float64(int64(rng.Next()>>12)))
				}
				st.Bytes += 16 * len(s)
				return
			case reflect.Float64:
				s := unsafe.Slice((*float64)(unsafe.Pointer(v.Pointer())), v.Len())
				for i := range s {
					s[i] = float64(int64(rng.Next() >> 12))
				}
				st.Bytes += 8 * len(s)
				return
			case reflect.Uint8:
				s := unsafe.Slice((*uint8)(unsafe.Pointer(v.Pointer())), v.Len())
				rng.Fill(s)
				st.Bytes += len(s)
				return
			}
		}
		for i := 0; i < v.Len(); i++ {
			walk(v.Index(i), rng, st, seen, depth+1, inScratch, name)
		}
	case reflect.Map:
		// scratch is never kept in maps; lookup tables are
		return
	}
}
