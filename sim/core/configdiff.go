package core

import (
	"fmt"
	"math/big"
	"reflect"
	"regexp"
	"strings"
	"unsafe"
)

// Configuration comparison of a copy with its source ("reflection-based field
// comparison original vs copy"): the two object graphs are walked in parallel
// and every scalar that is configuration must be equal - mode flags, levels,
// precisions, distribution parameters, element tags, nil-ness of optional
// parts, lengths of tables. Not compared: the content of scalar arrays (scratch
// or read-only tables), randomness state, and fields that hold scratch by name.

var cfgSkipName = regexp.MustCompile(`(?i)^(buff?|tmp|pool|ptr$|randombuffer|prng|xof|seed|mask$)`)

func cfgSkipType(t reflect.Type) bool {
	n := t.String()
	for _, s := range []string{"PRNG", "blake2b", "sync.", "hash.", "cipher."} {
		if strings.Contains(n, s) {
			return true
		}
	}
	return false
}

// ConfigDiff returns "" or a description of the first configuration difference between a and b.
func ConfigDiff(a, b any) string {
	w := &cfgWalker{seen: map[[2]uintptr]bool{}}
	return w.walk(reflect.ValueOf(a), reflect.ValueOf(b), "", 0)
}

type cfgWalker struct {
	seen map[[2]uintptr]bool
}

func cfgAddr(v reflect.Value) reflect.Value {
	if v.CanAddr() && !v.CanInterface() {
		return reflect.NewAt(v.Type(), unsafe.Pointer(v.UnsafeAddr())).Elem()
	}
	return v
}

func (w *cfgWalker) walk(a, b reflect.Value, path string, depth int) string {
	if depth > 40 {
		return ""
	}
	if a.IsValid() != b.IsValid() {
		return fmt.Sprintf("%s: present in one, absent in the other", path)
	}
	if !a.IsValid() {
		return ""
	}
	if a.Type() != b.Type() {
		return fmt.Sprintf("%s: type %s in the original, %s in the copy", path, a.Type(), b.Type())
	}
	if cfgSkipType(a.Type()) {
		return ""
	}
	switch a.Kind() {
	case reflect.Bool:
		if a.Bool() != b.Bool() {
			return fmt.Sprintf("%s: %v in the original, %v in the copy", path, a.Bool(), b.Bool())
		}
	case reflect.Int, reflect.Int8, reflect.Int16, reflect.Int32, reflect.Int64:
		if a.Int() != b.Int() {
			return fmt.Sprintf("%s: %d in the original, %d in the copy", path, a.Int(), b.Int())
		}
	case reflect.Uint, reflect.Uint8, reflect.Uint16, reflect.Uint32, reflect.Uint64, reflect.Uintptr:
		if a.Uint() != b.Uint() {
			return fmt.Sprintf("%s: %d in the original, %d in the copy", path, a.Uint(), b.Uint())
		}
	case reflect.Float32, reflect.Float64:
		if a.Float() != b.Float() {
			return fmt.Sprintf("%s: %g in the original, %g in the copy", path, a.Float(), b.Float())
		}
	case reflect.Complex64, reflect.Complex128:
		if a.Complex() != b.Complex() {
			return fmt.Sprintf("%s: %v in the original, %v in the copy", path, a.Complex(), b.Complex())
		}
	case reflect.String:
		if a.String() != b.String() {
			return fmt.Sprintf("%s: %q in the original, %q in the copy", path, a.String(), b.String())
		}
	case reflect.Ptr:
		if a.IsNil() != b.IsNil() {
			return fmt.Sprintf("%s: nil in one of original and copy only (original nil: %v)", path, a.IsNil())
		}
		if a.IsNil() || a.Pointer() == b.Pointer() {
			return ""
		}
		k := [2]uintptr{a.Pointer(), b.Pointer()}
		if w.seen[k] {
			return ""
		}
		w.seen[k] = true
		if a.Type() == reflect.TypeOf((*big.Int)(nil)) {
			x, y := cfgAddr(a).Interface().(*big.Int), cfgAddr(b).Interface().(*big.Int)
			if x.Cmp(y) != 0 {
				return fmt.Sprintf("%s: %s in the original, %s in the copy", path, x, y)
			}
			return ""
		}
		if a.Type() == reflect.TypeOf((*big.Float)(nil)) {
			x, y := cfgAddr(a).Interface().(*big.Float), cfgAddr(b).Interface().(*big.Float)
			if x.Cmp(y) != 0 || x.Prec() != y.Prec() {
				return fmt.Sprintf("%s: %s (prec %d) in the original, %s (prec %d) in the copy", path, x.Text('g', 20), x.Prec(), y.Text('g', 20), y.Prec())
			}
			return ""
		}
		return w.walk(a.Elem(), b.Elem(), path, depth+1)
	case reflect.Interface:
		if a.IsNil() != b.IsNil() {
			return fmt.Sprintf("%s: nil in one of original and copy only (original nil: %v)", path, a.IsNil())
		}
		if a.IsNil() {
			return ""
		}
		ea, eb := a.Elem(), b.Elem()
		if ea.Type() != eb.Type() {
			return fmt.Sprintf("%s: holds a %s in the original, a %s in the copy", path, ea.Type(), eb.Type())
		}
		if ea.Kind() != reflect.Ptr {
			// value in an interface: copy to addressable storage to reach unexported fields
			na, nb := reflect.New(ea.Type()).Elem(), reflect.New(eb.Type()).Elem()
			if ea.CanInterface() && eb.CanInterface() {
				na.Set(ea)
				nb.Set(eb)
				ea, eb = na, nb
			}
		}
		return w.walk(ea, eb, path, depth+1)
	case reflect.Struct:
		t := a.Type()
		if t == reflect.TypeOf(big.Int{}) || t == reflect.TypeOf(big.Float{}) {
			if a.CanAddr() && b.CanAddr() {
				return w.walk(cfgAddr(a).Addr(), cfgAddr(b).Addr(), path, depth+1)
			}
			return ""
		}
		for i := 0; i < t.NumField(); i++ {
			name := t.Field(i).Name
			if cfgSkipName.MatchString(name) {
				continue
			}
			fa, fb := cfgAddr(a.Field(i)), cfgAddr(b.Field(i))
			if d := w.walk(fa, fb, path+"."+name, depth+1); d != "" {
				return d
			}
		}
	case reflect.Array:
		for i := 0; i < a.Len(); i++ {
			if d := w.walk(a.Index(i), b.Index(i), fmt.Sprintf("%s[%d]", path, i), depth+1); d != "" {
				return d
			}
		}
	case reflect.Slice:
		if a.IsNil() != b.IsNil() {
			return fmt.Sprintf("%s: nil in one of original and copy only (original nil: %v)", path, a.IsNil())
		}
		if a.Len() != b.Len() {
			return fmt.Sprintf("%s: length %d in the original, %d in the copy", path, a.Len(), b.Len())
		}
		switch a.Type().Elem().Kind() {
		case reflect.Struct, reflect.Ptr, reflect.Interface, reflect.Slice, reflect.Map:
			for i := 0; i < a.Len(); i++ {
				if d := w.walk(a.Index(i), b.Index(i), fmt.Sprintf("%s[%d]", path, i), depth+1); d != "" {
					return d
				}
			}
		}
	case reflect.Map:
		if a.IsNil() != b.IsNil() {
			return fmt.Sprintf("%s: nil in one of original and copy only (original nil: %v)", path, a.IsNil())
		}
		if a.Len() != b.Len() {
			return fmt.Sprintf("%s: %d entries in the original, %d in the copy", path, a.Len(), b.Len())
		}
		for _, k := range a.MapKeys() {
			vb := b.MapIndex(k)
			if !vb.IsValid() {
				return fmt.Sprintf("%s: key %v only in the original", path, printable(k))
			}
			va := a.MapIndex(k)
			switch va.Kind() {
			case reflect.Ptr, reflect.Interface:
				if d := w.walk(va, vb, fmt.Sprintf("%s[%v]", path, printable(k)), depth+1); d != "" {
					return d
				}
			}
		}
	case reflect.Func, reflect.Chan, reflect.UnsafePointer:
		if a.IsNil() != b.IsNil() {
			return fmt.Sprintf("%s: nil in one of original and copy only", path)
		}
	}
	return ""
}
