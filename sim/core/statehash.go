package core

import (
	"fmt"
	"math"
	"reflect"
	"sort"
	"unsafe"
)

// State footprints: a hash of every byte of memory that can be reached from an
// object (exported or not, through pointers, slices, maps and interfaces),
// together with a table of per-field hashes that names what changed. The
// simulator owns the schedule, so between two of its steps nothing else runs:
// if one object's footprint changes while a step runs on another object, that
// step wrote memory the first object can reach.

// Footprint is the state of one object at one instant.
type Footprint struct {
	Hash   uint64
	Fields map[string]uint64 // hash per path (to a bounded depth)
	Bytes  int64
}

// Sweep shares the work of hashing memory that several objects reach (keys,
// parameters, tables): every block is hashed once per sweep.
type Sweep struct {
	memo  map[blockKey]uint64
	bytes int64
}

type blockKey struct {
	p uintptr
	n int
	t reflect.Type
}

func NewSweep() *Sweep { return &Sweep{memo: map[blockKey]uint64{}} }

// FootprintOf computes the footprint of obj (usually a pointer).
func (s *Sweep) FootprintOf(obj any) Footprint {
	fp := Footprint{Fields: map[string]uint64{}}
	b0 := s.bytes
	w := &fpWalker{s: s, fields: fp.Fields, seen: map[blockKey]uint64{}}
	fp.Hash = w.walk(reflect.ValueOf(obj), "", 0)
	fp.Bytes = s.bytes - b0
	return fp
}

// Diff names the paths whose hashes differ (sorted, at most max).
func (a Footprint) Diff(b Footprint, max int) []string {
	var out []string
	for k, v := range a.Fields {
		if w, ok := b.Fields[k]; ok && w != v {
			out = append(out, k)
		}
	}
	sort.Strings(out)
	// keep the most specific paths: drop a path when a longer one with this prefix is present
	var leaf []string
	for i, p := range out {
		if i+1 < len(out) && len(out[i+1]) > len(p) && out[i+1][:len(p)] == p && (out[i+1][len(p)] == '.' || out[i+1][len(p)] == '[') {
			continue
		}
		leaf = append(leaf, p)
	}
	if len(leaf) > max {
		leaf = leaf[:max]
	}
	return leaf
}

// fpWalker walks one object. Pointer targets, maps and slices of non-scalars
// are memoised per object (the hash of an object is a function of its own
// graph and traversal only); the sweep-wide memo holds scalar arrays only.
type fpWalker struct {
	s      *Sweep
	fields map[string]uint64
	seen   map[blockKey]uint64
}

const fpPathDepth = 6

func mix(h, x uint64) uint64 {
	h ^= x
	h *= 0x9e3779b97f4a7c15
	h ^= h >> 29
	return h
}

func hashWords(p unsafe.Pointer, n int) uint64 {
	ws := unsafe.Slice((*uint64)(p), n)
	h0, h1, h2, h3 := uint64(1), uint64(2), uint64(3), uint64(4)
	i := 0
	for ; i+4 <= n; i += 4 {
		h0 = (h0 ^ ws[i]) * 0x9e3779b97f4a7c15
		h1 = (h1 ^ ws[i+1]) * 0xc2b2ae3d27d4eb4f
		h2 = (h2 ^ ws[i+2]) * 0x165667b19e3779f9
		h3 = (h3 ^ ws[i+3]) * 0xd6e8feb86659fd93
		h0 ^= h0 >> 31
		h1 ^= h1 >> 31
		h2 ^= h2 >> 31
		h3 ^= h3 >> 31
	}
	for ; i < n; i++ {
		h0 = mix(h0, ws[i])
	}
	return mix(mix(mix(h0, h1), h2), h3)
}

func hashBytes(p unsafe.Pointer, n int) uint64 {
	h := hashWords(p, n/8)
	bs := unsafe.Slice((*byte)(p), n)
	for i := n &^ 7; i < n; i++ {
		h = mix(h, uint64(bs[i]))
	}
	return mix(h, uint64(n))
}

// plain reports whether values of type t hold no pointers (hashable as raw bytes).
func plain(t reflect.Type) bool {
	switch t.Kind() {
	case reflect.Bool, reflect.Int, reflect.Int8, reflect.Int16, reflect.Int32, reflect.Int64,
		reflect.Uint, reflect.Uint8, reflect.Uint16, reflect.Uint32, reflect.Uint64, reflect.Uintptr,
		reflect.Float32, reflect.Float64, reflect.Complex64, reflect.Complex128:
		return true
	case reflect.Array:
		return plain(t.Elem())
	}
	return false
}

func addressable(v reflect.Value) reflect.Value {
	if v.CanAddr() {
		if !v.CanInterface() {
			return reflect.NewAt(v.Type(), unsafe.Pointer(v.UnsafeAddr())).Elem()
		}
		return v
	}
	// a value held in an interface or a map: copy it so that unexported fields can be read
	nv := reflect.New(v.Type()).Elem()
	if v.CanInterface() {
		nv.Set(v)
		return nv
	}
	return v
}

func (w *fpWalker) note(path string, depth int, h uint64) uint64 {
	if depth <= fpPathDepth && path != "" {
		w.fields[path] = h
	}
	return h
}

func (w *fpWalker) walk(v reflect.Value, path string, depth int) uint64 {
	if !v.IsValid() {
		return 7
	}
	if depth > 64 {
		return 11
	}
	switch v.Kind() {
	case reflect.Bool:
		if v.Bool() {
			return 3
		}
		return 5
	case reflect.Int, reflect.Int8, reflect.Int16, reflect.Int32, reflect.Int64:
		return mix(13, uint64(v.Int()))
	case reflect.Uint, reflect.Uint8, reflect.Uint16, reflect.Uint32, reflect.Uint64, reflect.Uintptr:
		return mix(17, v.Uint())
	case reflect.Float32, reflect.Float64:
		return mix(19, math.Float64bits(v.Float()))
	case reflect.Complex64, reflect.Complex128:
		c := v.Complex()
		return mix(mix(23, math.Float64bits(real(c))), math.Float64bits(imag(c)))
	case reflect.String:
		s := v.String()
		if len(s) == 0 {
			return 29
		}
		return hashBytes(unsafe.Pointer(unsafe.StringData(s)), len(s))
	case reflect.Ptr:
		if v.IsNil() {
			return 31
		}
		k := blockKey{v.Pointer(), 1, v.Type()}
		if h, ok := w.seen[k]; ok {
			return w.noteShared(path, depth, h)
		}
		w.seen[k] = 37 // in progress (cycle)
		h := mix(41, w.walk(v.Elem(), path, depth+1))
		w.seen[k] = h
		return w.note(path, depth, h)
	case reflect.Interface:
		if v.IsNil() {
			return 43
		}
		e := v.Elem()
		return mix(47, w.walk(addressable(e), path, depth+1))
	case reflect.Struct:
		v = addressable(v)
		if v.CanAddr() && plainStruct(v.Type()) {
			w.s.bytes += int64(v.Type().Size())
			return w.note(path, depth, hashBytes(unsafe.Pointer(v.UnsafeAddr()), int(v.Type().Size())))
		}
		h := uint64(53)
		t := v.Type()
		for i := 0; i < v.NumField(); i++ {
			f := v.Field(i)
			if !f.CanInterface() && f.CanAddr() {
				f = reflect.NewAt(f.Type(), unsafe.Pointer(f.UnsafeAddr())).Elem()
			}
			p := ""
			if depth < fpPathDepth {
				p = path + "." + t.Field(i).Name
			}
			h = mix(h, w.walk(f, p, depth+1))
		}
		return w.note(path, depth, h)
	case reflect.Array:
		if v.CanAddr() && plain(v.Type()) {
			w.s.bytes += int64(v.Type().Size())
			return hashBytes(unsafe.Pointer(v.UnsafeAddr()), int(v.Type().Size()))
		}
		h := uint64(59)
		for i := 0; i < v.Len(); i++ {
			p := ""
			if depth < fpPathDepth {
				p = fmt.Sprintf("%s[%d]", path, i)
			}
			h = mix(h, w.walk(v.Index(i), p, depth+1))
		}
		return w.note(path, depth, h)
	case reflect.Slice:
		if v.IsNil() {
			return 61
		}
		n := v.Len()
		if n == 0 {
			return 67
		}
		k := blockKey{v.Pointer(), n, v.Type()}
		et := v.Type().Elem()
		if plain(et) {
			if h, ok := w.s.memo[k]; ok {
				return w.noteShared(path, depth, h)
			}
			sz := n * int(et.Size())
			w.s.bytes += int64(sz)
			h := hashBytes(unsafe.Pointer(v.Pointer()), sz)
			w.s.memo[k] = h
			return w.note(path, depth, h)
		}
		if h, ok := w.seen[k]; ok {
			return w.noteShared(path, depth, h)
		}
		w.seen[k] = 71
		h := uint64(73)
		for i := 0; i < n; i++ {
			p := ""
			if depth < fpPathDepth {
				p = fmt.Sprintf("%s[%d]", path, i)
			}
			h = mix(h, w.walk(v.Index(i), p, depth+1))
		}
		w.seen[k] = h
		return w.note(path, depth, h)
	case reflect.Map:
		if v.IsNil() {
			return 79
		}
		k := blockKey{v.Pointer(), -1, v.Type()}
		if h, ok := w.seen[k]; ok {
			return w.noteShared(path, depth, h)
		}
		w.seen[k] = 83
		var sum uint64
		it := v.MapRange()
		for it.Next() {
			kk, vv := it.Key(), it.Value()
			p := ""
			if depth < fpPathDepth {
				p = fmt.Sprintf("%s[%v]", path, printable(kk))
			}
			// a throw-away walker for the key: its paths are of no interest
			kw := &fpWalker{s: w.s, fields: map[string]uint64{}, seen: w.seen}
			sum += mix(kw.walk(addressable(kk), "", depth+1), w.walk(addressable(vv), p, depth+1))
		}
		h := mix(89, sum) ^ uint64(v.Len())
		w.seen[k] = h
		return w.note(path, depth, h)
	case reflect.Func, reflect.Chan, reflect.UnsafePointer:
		if v.IsNil() {
			return 97
		}
		return 101
	}
	return 103
}

// noteShared records the hash of an already visited block under this path too.
func (w *fpWalker) noteShared(path string, depth int, h uint64) uint64 {
	return w.note(path, depth, h)
}

func printable(k reflect.Value) any {
	switch k.Kind() {
	case reflect.Int, reflect.Int8, reflect.Int16, reflect.Int32, reflect.Int64:
		return k.Int()
	case reflect.Uint, reflect.Uint8, reflect.Uint16, reflect.Uint32, reflect.Uint64:
		return k.Uint()
	case reflect.String:
		return k.String()
	}
	return "?"
}

var plainStructMemo = map[reflect.Type]bool{}

// plainStruct: a struct of scalars only, without padding-sensitive content
// (all fields of the same 8-byte size, so that the raw bytes are the value).
func plainStruct(t reflect.Type) bool {
	if r, ok := plainStructMemo[t]; ok {
		return r
	}
	r := t.NumField() > 0
	for i := 0; i < t.NumField(); i++ {
		f := t.Field(i).Type
		if !plain(f) || f.Size()%8 != 0 || f.Kind() == reflect.Float32 || f.Kind() == reflect.Float64 || f.Kind() == reflect.Complex128 || f.Kind() == reflect.Complex64 {
			r = false
			break
		}
	}
	plainStructMemo[t] = r
	return r
}
