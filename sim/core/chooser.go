package core

import (
	"fmt"
)

// Chooser is the only source of choices in a simulated run. In generation
// mode values come from a private xoshiro256** generator seeded from the run
// seed; in replay mode they come from a recorded trace (0 once exhausted, 0
// being by convention the simplest alternative everywhere: no fault, stop,
// smallest size, in-order delivery). Every draw is recorded.
type Chooser struct {
	rng      *Xoshiro
	replay   []uint64
	isReplay bool
	pos      int

	Trace  []uint64
	Labels []string // only when KeepLabels
	// KeepLabels makes the chooser remember the label and bound of each draw
	// (used for the readable part of replay files).
	KeepLabels bool
	// Sink, if set, receives every draw as it happens (used to recover the
	// trace of a run that kills its process).
	Sink func(v uint64)
	max  int
}

// NewChooser returns a generating chooser.
func NewChooser(seed uint64) *Chooser {
	return &Chooser{rng: NewXoshiro(seed), max: 1 << 22}
}

// NewReplayChooser returns a chooser that replays trace.
func NewReplayChooser(trace []uint64) *Chooser {
	return &Chooser{replay: trace, isReplay: true, max: 1 << 22}
}

// ErrTooManyDraws is the panic value used when a run draws more than the cap.
type ErrTooManyDraws struct{}

// Draw64 returns a raw 64-bit value.
func (c *Chooser) Draw64(label string) uint64 {
	return c.draw(label, 0)
}

// Draw returns a value in [0,n). n must be >= 1.
func (c *Chooser) Draw(label string, n int) int {
	if n <= 0 {
		panic(fmt.Sprintf("chooser: Draw(%q,%d)", label, n))
	}
	if n == 1 {
		// no information: not recorded, so that adding single-alternative
		// draws never shifts a trace.
		return 0
	}
	return int(c.draw(label, uint64(n)))
}

func (c *Chooser) draw(label string, n uint64) uint64 {
	if len(c.Trace) >= c.max {
		panic(ErrTooManyDraws{})
	}
	var v uint64
	if c.isReplay {
		if c.pos < len(c.replay) {
			v = c.replay[c.pos]
		}
		c.pos++
		if n != 0 {
			v %= n
		}
	} else {
		v = c.rng.Next()
		if n != 0 {
			// multiply-shift is unbiased enough for a search heuristic and
			// keeps one generator call per draw.
			hi, _ := mul64(v, n)
			v = hi
		}
	}
	c.Trace = append(c.Trace, v)
	if c.KeepLabels {
		c.Labels = append(c.Labels, fmt.Sprintf("%s/%d", label, n))
	}
	if c.Sink != nil {
		c.Sink(v)
	}
	return v
}

func mul64(a, b uint64) (hi, lo uint64) {
	const mask32 = 1<<32 - 1
	a0, a1 := a&mask32, a>>32
	b0, b1 := b&mask32, b>>32
	w0 := a0 * b0
	t := a1*b0 + w0>>32
	w1 := t & mask32
	w2 := t >> 32
	w1 += a0 * b1
	hi = a1*b1 + w2 + w1>>32
	lo = a * b
	return
}

// Range returns a value in [lo,hi].
func (c *Chooser) Range(label string, lo, hi int) int {
	if hi < lo {
		panic(fmt.Sprintf("chooser: Range(%q,%d,%d)", label, lo, hi))
	}
	return lo + c.Draw(label, hi-lo+1)
}

// Chance is true with probability num/den; the value 0 maps to false.
func (c *Chooser) Chance(label string, num, den int) bool {
	if num <= 0 {
		return false
	}
	if num >= den {
		return true
	}
	return c.Draw(label, den) >= den-num
}

// Bool is a fair coin; 0 maps to false.
func (c *Chooser) Bool(label string) bool { return c.Draw(label, 2) == 1 }

// Weighted picks an index with probability proportional to w[i]; index 0 is
// the alternative chosen by an exhausted trace.
func (c *Chooser) Weighted(label string, w []int) int {
	tot := 0
	for _, x := range w {
		tot += x
	}
	v := c.Draw(label, tot)
	for i, x := range w {
		if v < x {
			return i
		}
		v -= x
	}
	return len(w) - 1
}

// Perm returns a permutation of 0..n-1; the all-zero trace gives the identity.
func (c *Chooser) Perm(label string, n int) []int {
	p := make([]int, n)
	for i := range p {
		p[i] = i
	}
	for i := 0; i < n-1; i++ {
		j := i + c.Draw(label, n-i)
		p[i], p[j] = p[j], p[i]
	}
	return p
}

// TraceHash is a 64-bit hash of the choices made so far.
func (c *Chooser) TraceHash() uint64 {
	h := uint64(0x1234567)
	for _, v := range c.Trace {
		h = SplitMix64(h ^ v)
	}
	return h
}
