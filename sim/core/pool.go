package core

import (
	"bufio"
	"encoding/json"
	"fmt"
	"io"
	"os"
	"os/exec"
	"regexp"
	"sort"
	"strings"
	"sync"
)

// proc is one worker process owned by the parent.
type proc struct {
	bin   string
	args  []string
	env   []string
	cmd   *exec.Cmd
	stdin io.WriteCloser
	out   *bufio.Reader
	errMu sync.Mutex
	errB  []byte
	errWG sync.WaitGroup
}

func startProc(bin string, args []string, env []string) (*proc, error) {
	p := &proc{bin: bin, args: args, env: env}
	if err := p.start(); err != nil {
		return nil, err
	}
	return p, nil
}

func (p *proc) start() error {
	p.cmd = exec.Command(p.bin, p.args...)
	p.cmd.Env = append(os.Environ(), p.env...)
	var err error
	if p.stdin, err = p.cmd.StdinPipe(); err != nil {
		return err
	}
	so, err := p.cmd.StdoutPipe()
	if err != nil {
		return err
	}
	se, err := p.cmd.StderrPipe()
	if err != nil {
		return err
	}
	p.out = bufio.NewReaderSize(so, 1<<20)
	p.errB = nil
	if err := p.cmd.Start(); err != nil {
		return err
	}
	p.errWG.Add(1)
	go func() {
		defer p.errWG.Done()
		buf := make([]byte, 32<<10)
		for {
			n, err := se.Read(buf)
			if n > 0 {
				p.errMu.Lock()
				p.errB = append(p.errB, buf[:n]...)
				if len(p.errB) > 256<<10 {
					// keep head (the first report) and tail
					p.errB = append(p.errB[:128<<10:128<<10], p.errB[len(p.errB)-(64<<10):]...)
				}
				p.errMu.Unlock()
			}
			if err != nil {
				return
			}
		}
	}()
	return nil
}

func (p *proc) kill() {
	if p.cmd != nil && p.cmd.Process != nil {
		p.stdin.Close()
		p.cmd.Process.Kill()
		p.cmd.Wait()
	}
}

// do sends a job and waits for its result. died=true means the process ended
// before answering; stderr then holds what it printed.
func (p *proc) do(job *Job) (res *Result, died bool, stderr string, err error) {
	b, _ := json.Marshal(job)
	b = append(b, '\n')
	if _, werr := p.stdin.Write(b); werr != nil {
		died = true
	}
	if !died {
		line, rerr := p.out.ReadBytes('\n')
		if rerr != nil {
			died = true
		} else {
			res = &Result{}
			if jerr := json.Unmarshal(line, res); jerr != nil {
				return nil, false, "", fmt.Errorf("bad worker output: %v: %.200s", jerr, line)
			}
			return res, false, "", nil
		}
	}
	p.stdin.Close()
	// drain stderr to EOF before Wait (Wait closes the pipe)
	p.errWG.Wait()
	p.cmd.Wait()
	p.errMu.Lock()
	stderr = string(p.errB)
	p.errMu.Unlock()
	if serr := p.start(); serr != nil {
		return nil, true, stderr, serr
	}
	return nil, true, stderr, nil
}

var raceFuncRe = regexp.MustCompile(`^\s+(\S+)\(\)\s*$`)

// classifyDeath turns the stderr of a dead worker into (oracle, class key).
func classifyDeath(stderr string) (oracle, class, excerpt string) {
	switch {
	case strings.Contains(stderr, "WARNING: DATA RACE"):
		return "race", raceClass(stderr), excerptOf(stderr, "WARNING: DATA RACE", 6000)
	case strings.Contains(stderr, "stack overflow") || strings.Contains(stderr, "stack exceeds"):
		return "fatal", "stack-overflow:" + firstLattigoFrame(stderr), excerptOf(stderr, "goroutine ", 3000)
	case strings.Contains(stderr, "out of memory") || strings.Contains(stderr, "cannot allocate memory"):
		return "fatal", "out-of-memory:" + firstLattigoFrame(stderr), excerptOf(stderr, "fatal error", 3000)
	case strings.Contains(stderr, "fatal error:"):
		return "fatal", "fatal:" + firstLattigoFrame(stderr), excerptOf(stderr, "fatal error", 3000)
	case strings.Contains(stderr, "panic:"):
		return "fatal", "unrecovered-panic:" + firstLattigoFrame(stderr), excerptOf(stderr, "panic:", 3000)
	}
	return "fatal", "died-silently", excerptOf(stderr, "", 2000)
}

func excerptOf(s, from string, max int) string {
	if i := strings.Index(s, from); i >= 0 {
		s = s[i:]
	}
	if len(s) > max {
		s = s[:max]
	}
	return s
}

func firstLattigoFrame(stderr string) string {
	for _, ln := range strings.Split(stderr, "\n") {
		if strings.HasPrefix(ln, lattigoPath) {
			fn := ln
			if i := strings.LastIndex(fn, "("); i > 0 {
				fn = fn[:i]
			}
			return shortFunc(strings.TrimSpace(fn))
		}
	}
	return "?"
}

// raceClass extracts the innermost lattigo function of each of the two
// conflicting stacks of the first race report; the pair (sorted) is the class.
func raceClass(stderr string) string {
	lines := strings.Split(excerptOf(stderr, "WARNING: DATA RACE", 1<<20), "\n")
	var stacks [][]string
	cur := -1
	for _, ln := range lines {
		t := strings.TrimSpace(ln)
		if strings.HasPrefix(t, "Write at") || strings.HasPrefix(t, "Read at") ||
			strings.HasPrefix(t, "Previous write at") || strings.HasPrefix(t, "Previous read at") {
			stacks = append(stacks, nil)
			cur = len(stacks) - 1
			continue
		}
		if strings.HasPrefix(t, "Goroutine ") || strings.HasPrefix(t, "====") {
			cur = -1
			if len(stacks) >= 2 {
				break
			}
			continue
		}
		if cur >= 0 {
			if m := raceFuncRe.FindStringSubmatch(ln); m != nil {
				stacks[cur] = append(stacks[cur], m[1])
			}
		}
	}
	var sites []string
	for _, st := range stacks {
		site := "?"
		for _, fn := range st {
			if strings.Contains(fn, lattigoPath) {
				site = shortFunc(fn)
				break
			}
		}
		sites = append(sites, site)
	}
	sort.Strings(sites)
	return strings.Join(sites, "<->")
}
