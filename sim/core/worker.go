package core

import (
	"bufio"
	"encoding/json"
	"fmt"
	"os"
	"regexp"
	"runtime/debug"
	"strconv"
	"syscall"
)

// Job is sent by the parent to a worker, one JSON line each.
type Job struct {
	ID        int      `json:"id"`
	Prop      string   `json:"prop"`
	Tier      string   `json:"tier"`
	Seed      uint64   `json:"seed"`
	Run       int      `json:"run"`
	Trace     []uint64 `json:"trace,omitempty"`
	HasTrace  bool     `json:"has_trace,omitempty"`
	Record    bool     `json:"record,omitempty"`
	TraceFile string   `json:"trace_file,omitempty"` // stream draws to this file (to recover the trace of a fatal run)
	NoKnown   bool     `json:"no_known,omitempty"`
}

// Result is the worker's answer.
type Result struct {
	ID         int              `json:"id"`
	Run        int              `json:"run"`
	Violation  *Violation       `json:"violation,omitempty"`
	Harness    string           `json:"harness,omitempty"`
	Trace      []uint64         `json:"trace,omitempty"`
	Labels     []string         `json:"labels,omitempty"`
	Events     []string         `json:"events,omitempty"`
	Stats      map[string]int64 `json:"stats,omitempty"`
	Known      map[string]int64 `json:"known,omitempty"`
	LogHash    uint64           `json:"log_hash"`
	TraceHash  uint64           `json:"trace_hash"`
	Draws      int              `json:"draws"`
	Nontrivial bool             `json:"nontrivial"`
	SimTimeNs  int64            `json:"sim_time_ns"`
	Steps      int64            `json:"steps"`
}

var registry = map[string]Property{}

// Register makes a property known to the driver.
func Register(p Property) { registry[p.ID()] = p }

// Lookup returns a registered property.
func Lookup(id string) Property { return registry[id] }

// PublicID maps a workload key (e.g. "C10R") to the property id ("C10").
func PublicID(key string) string {
	if len(key) > 3 {
		return key[:3]
	}
	return key
}

// Description is the static part of a property's evidence.
type Description struct {
	Level  string
	Rule   string
	Real   []string
	Stub   []string
	Assume []string
}

// Describer is implemented by workloads that describe themselves.
type Describer interface{ Describe() Description }

// RunSeedFor derives the per-run seed.
func RunSeedFor(verifSeed uint64, prop string, run int) uint64 {
	return SplitMix64(verifSeed ^ HashString(prop) ^ SplitMix64(uint64(run)+0x51ed))
}

func runOne(p Property, job *Job, known []*KnownFinding, cache *Cache) (res *Result) {
	runSeed := RunSeedFor(job.Seed, job.Prop, job.Run)
	var ch *Chooser
	if job.HasTrace {
		ch = NewReplayChooser(job.Trace)
	} else {
		ch = NewChooser(runSeed)
	}
	ch.KeepLabels = job.Record
	if job.TraceFile != "" {
		f, err := os.OpenFile(job.TraceFile, os.O_CREATE|os.O_TRUNC|os.O_WRONLY, 0o644)
		if err == nil {
			defer f.Close()
			ch.Sink = func(v uint64) { f.WriteString(strconv.FormatUint(v, 10) + "\n") }
		}
	}
	ctx := &RunCtx{
		Prop: PublicID(job.Prop), Tier: job.Tier, Seed: job.Seed, Run: job.Run, RunSeed: runSeed, Ch: ch,
		Record: job.Record, Stats: map[string]int64{}, Known: map[string]int64{},
		cache: cache, verifSeed: job.Seed,
	}
	if !job.NoKnown {
		ctx.known = known
	}
	res = &Result{ID: job.ID, Run: job.Run}
	finish := func() {
		res.Stats = ctx.Stats
		res.Known = ctx.Known
		res.LogHash = ctx.logHash
		res.TraceHash = ch.TraceHash()
		res.Draws = len(ch.Trace)
		res.Nontrivial = ctx.Nontrivial
		res.SimTimeNs = ctx.SimTimeNs
		res.Steps = ctx.Steps
		if job.Record {
			res.Events = ctx.Events
			res.Labels = ch.Labels
		}
		if res.Violation != nil || job.Record || job.HasTrace {
			res.Trace = ch.Trace
		}
	}
	defer func() {
		if r := recover(); r != nil {
			switch e := r.(type) {
			case violationPanic:
				res.Violation = e.v
				ctx.Event("VIOLATION %s: %s", e.v.Key(), e.v.Msg)
			case HarnessError:
				res.Harness = e.Msg
			case ErrTooManyDraws:
				res.Harness = "run exceeded the draw cap"
			case TaskPanic:
				if e.InLibrary {
					v := &Violation{Property: PublicID(job.Prop), Oracle: "panic", Class: e.Site, Msg: fmt.Sprintf("panic in library code (task %d): %v\n%s", e.Task, e.Value, e.Stack)}
					if k := ctx.matchKnown(v); k != nil {
						ctx.Known[k.Key]++
					} else {
						res.Violation = v
					}
					ctx.Event("PANIC %s", e.Site)
				} else {
					res.Harness = fmt.Sprintf("panic in harness code of task %d at %s: %v\n%s", e.Task, e.Site, e.Value, e.Stack)
				}
			default:
				in, site, st := classifyPanic(3)
				if in {
					v := &Violation{Property: PublicID(job.Prop), Oracle: "panic", Class: site, Msg: fmt.Sprintf("panic in library code: %v\n%s", r, st)}
					if k := ctx.matchKnown(v); k != nil {
						ctx.Known[k.Key]++
					} else {
						res.Violation = v
					}
					ctx.Event("PANIC %s", site)
				} else {
					res.Harness = fmt.Sprintf("panic in harness code at %s: %v\n%s", site, r, st)
				}
			}
		}
		finish()
	}()
	SetEntropy(SplitMix64(runSeed ^ 0xe17a))
	p.Run(ctx)
	return
}

// LoadKnown reads the committed known-findings file.
func LoadKnown(path string) ([]*KnownFinding, error) {
	b, err := os.ReadFile(path)
	if err != nil {
		if os.IsNotExist(err) {
			return nil, nil
		}
		return nil, err
	}
	var ks []*KnownFinding
	if err := json.Unmarshal(b, &ks); err != nil {
		return nil, err
	}
	for _, k := range ks {
		re, err := regexp.Compile(k.Key)
		if err != nil {
			return nil, fmt.Errorf("known finding %q: %w", k.Key, err)
		}
		k.re = re
	}
	return ks, nil
}

// WorkerMain is the worker loop: one job per line on stdin, one result per
// line on stdout.
func WorkerMain(knownPath string, race bool) {
	InstallEntropy()
	debug.SetMaxStack(96 << 20) // an unbounded recursion dies quickly and attributably
	if !race {
		// an unbounded allocation becomes a deterministic fatal error instead of
		// pressure on the whole machine
		lim := &syscall.Rlimit{Cur: 8 << 30, Max: 8 << 30}
		_ = syscall.Setrlimit(syscall.RLIMIT_AS, lim)
	}
	known, err := LoadKnown(knownPath)
	if err != nil {
		fmt.Fprintln(os.Stderr, "worker: known findings:", err)
		os.Exit(2)
	}
	cache := &Cache{m: map[string]any{}, Max: 64}
	in := bufio.NewReaderSize(os.Stdin, 1<<20)
	out := bufio.NewWriterSize(os.Stdout, 1<<20)
	dec := json.NewDecoder(in)
	for {
		var job Job
		if err := dec.Decode(&job); err != nil {
			return
		}
		p := Lookup(job.Prop)
		var res *Result
		if p == nil {
			res = &Result{ID: job.ID, Run: job.Run, Harness: "unknown property " + job.Prop}
		} else {
			res = runOne(p, &job, known, cache)
		}
		b, _ := json.Marshal(res)
		out.Write(b)
		out.WriteByte('\n')
		out.Flush()
	}
}
