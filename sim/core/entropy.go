package core

import (
	crand "crypto/rand"
)

// detEntropy replaces crypto/rand.Reader. Each Read call is served by a fresh
// generator keyed by (seed, call counter): distinct keys for every
// sampling.NewPRNG() call, identical keys on replay.
type detEntropy struct {
	seed uint64
	ctr  uint64
}

var entropy = &detEntropy{}

// InstallEntropy swaps the process-wide entropy source for the deterministic
// one. The library reaches crypto/rand only through rand.Read / rand.Int on
// rand.Reader, both of which read the Reader variable at call time.
func InstallEntropy() { crand.Reader = entropy }

// SetEntropy re-keys the deterministic source and resets its call counter.
//
//go:norace
func SetEntropy(seed uint64) {
	RaceHide()
	entropy.seed = seed
	entropy.ctr = 0
	RaceShow()
}

// EntropyState returns (seed, counter) so that a sub-computation (cached
// context construction) can be bracketed.
//
//go:norace
func EntropyState() (uint64, uint64) {
	RaceHide()
	a, b := entropy.seed, entropy.ctr
	RaceShow()
	return a, b
}

// RestoreEntropy restores a state obtained from EntropyState.
//
//go:norace
func RestoreEntropy(seed, ctr uint64) {
	RaceHide()
	entropy.seed, entropy.ctr = seed, ctr
	RaceShow()
}

// EntropyCalls is the number of Read calls since the last SetEntropy.
//
//go:norace
func EntropyCalls() uint64 {
	RaceHide()
	c := entropy.ctr
	RaceShow()
	return c
}

// Read implements io.Reader. Under -race the simulated tasks of simsched call
// this from different goroutines (serialised by the scheduler); the window is
// hidden from the race runtime so that it neither reports the counter nor
// derives a happens-before edge from it.
//
//go:norace
func (d *detEntropy) Read(p []byte) (int, error) {
	RaceHide()
	d.ctr++
	var x Xoshiro
	x.Seed(SplitMix64(d.seed) ^ SplitMix64(d.ctr*0x9e3779b97f4a7c15+1))
	x.Fill(p)
	RaceShow()
	return len(p), nil
}
