package core

import (
	"fmt"
	"regexp"
	"runtime"
	"sort"
	"strings"
)

// Violation is what a property workload reports.
type Violation struct {
	Property string `json:"property"`
	Oracle   string `json:"oracle"` // which oracle fired
	Class    string `json:"class"`  // class key: specific type / call site / fault; used for shrinking and known findings
	Msg      string `json:"msg"`
}

// Key is the string matched against known findings and used as the shrink target.
func (v *Violation) Key() string { return v.Property + "|" + v.Oracle + "|" + v.Class }

type violationPanic struct{ v *Violation }

// HarnessError is the panic value for defects of the machinery itself.
type HarnessError struct{ Msg string }

// Property is a workload + oracles for one property.
type Property interface {
	ID() string
	// Runs returns the number of runs for a tier.
	Runs(tier string) int
	// Run executes one simulated run; every choice must come from ctx.Ch.
	Run(ctx *RunCtx)
}

// KnownFinding is an entry of /verif/known_findings.json.
type KnownFinding struct {
	Property string `json:"property"`
	Key      string `json:"key"` // regular expression matched against Violation.Key()
	What     string `json:"what"`
	Status   string `json:"status"` // "open" or "fixed:<commit>"
	re       *regexp.Regexp
}

// RunCtx is handed to Property.Run.
type RunCtx struct {
	Prop    string
	Tier    string
	Seed    uint64 // VERIF_SEED
	Run     int
	RunSeed uint64
	Ch      *Chooser

	Record  bool
	Events  []string
	logHash uint64
	seq     uint64

	Stats      map[string]int64
	SimTimeNs  int64
	Steps      int64
	Nontrivial bool

	known     []*KnownFinding
	Known     map[string]int64 // known-finding key -> hits in this run
	cache     *Cache
	verifSeed uint64
}

// Event appends one event to the run's log. The text is hashed always and kept
// when recording. It must never draw from the chooser or read a clock.
func (c *RunCtx) Event(format string, args ...any) {
	c.seq++
	var s string
	if len(args) == 0 {
		s = format
	} else {
		s = fmt.Sprintf(format, args...)
	}
	h := c.logHash ^ c.seq
	for i := 0; i < len(s); i++ {
		h ^= uint64(s[i])
		h *= 0x100000001b3
	}
	c.logHash = SplitMix64(h)
	if c.Record && len(c.Events) < 4000 {
		c.Events = append(c.Events, fmt.Sprintf("%d %s", c.seq, s))
	}
}

// Seq is the global event sequence number.
func (c *RunCtx) Seq() uint64 { return c.seq }

// LogHash is the hash of all events so far.
func (c *RunCtx) LogHash() uint64 { return c.logHash }

// Count bumps a counter (faults fired, probes, oracle evaluations).
func (c *RunCtx) Count(name string, n int64) { c.Stats[name] += n }

// Fail reports a violation. If it matches an open known finding it is counted
// and Fail returns so that the run continues (the caller must skip whatever
// depended on the failed step); otherwise the run ends here.
func (c *RunCtx) Fail(oracle, class, format string, args ...any) {
	v := &Violation{Property: c.Prop, Oracle: oracle, Class: class, Msg: fmt.Sprintf(format, args...)}
	if k := c.matchKnown(v); k != nil {
		c.Known[k.Key]++
		c.Event("known-finding %s", k.Key)
		return
	}
	panic(violationPanic{v})
}

func (c *RunCtx) matchKnown(v *Violation) *KnownFinding {
	key := v.Key()
	for _, k := range c.known {
		if k.Status == "open" && k.Property == v.Property && k.re != nil && k.re.MatchString(key) {
			return k
		}
	}
	return nil
}

// Harness aborts the run with a machinery error (exit 2, never a violation).
func (c *RunCtx) Harness(format string, args ...any) {
	panic(HarnessError{fmt.Sprintf(format, args...)})
}

// Cached returns a context object built once per worker under its own seed
// H(VERIF_SEED,key); the builder gets a private generator and must not touch
// the run's chooser. The object must be treated as immutable by the caller.
func (c *RunCtx) Cached(key string, build func(rng *Xoshiro) any) any {
	return c.cache.get(c.verifSeed, key, build)
}

// Cache is the per-worker context cache.
type Cache struct {
	m     map[string]any
	order []string
	Max   int
}

func (ca *Cache) get(verifSeed uint64, key string, build func(rng *Xoshiro) any) any {
	if v, ok := ca.m[key]; ok {
		return v
	}
	s := SplitMix64(verifSeed ^ HashString("ctx:"+key))
	es, ec := EntropyState()
	SetEntropy(s)
	v := build(NewXoshiro(s))
	RestoreEntropy(es, ec)
	if ca.Max > 0 && len(ca.order) >= ca.Max {
		delete(ca.m, ca.order[0])
		ca.order = ca.order[1:]
	}
	ca.m[key] = v
	ca.order = append(ca.order, key)
	return v
}

// SortedKeys returns the keys of a string-keyed map in order (maps are never
// iterated directly to make a choice or to log).
func SortedKeys[V any](m map[string]V) []string {
	ks := make([]string, 0, len(m))
	for k := range m {
		ks = append(ks, k)
	}
	sort.Strings(ks)
	return ks
}

const lattigoPath = "github.com/tuneinsight/lattigo/v6"
const harnessPath = "verifsim/"

// classifyPanic inspects the stack of a recovered panic: the innermost frame
// that belongs either to lattigo or to the harness decides who panicked.
func classifyPanic(skip int) (inLattigo bool, site string, stack string) {
	pcs := make([]uintptr, 256)
	n := runtime.Callers(skip, pcs)
	frames := runtime.CallersFrames(pcs[:n])
	var sb strings.Builder
	decided := false
	cnt := 0
	for {
		f, more := frames.Next()
		if cnt < 40 {
			fmt.Fprintf(&sb, "%s:%d %s\n", trimPath(f.File), f.Line, f.Function)
		}
		cnt++
		if !decided {
			fn := f.Function
			if strings.Contains(fn, lattigoPath) {
				inLattigo, site, decided = true, shortFunc(fn), true
			} else if strings.HasPrefix(fn, harnessPath) || strings.HasPrefix(fn, "main.") {
				// skip the frames of the recovery machinery itself
				if !strings.Contains(fn, "core.classifyPanic") && !strings.Contains(fn, "core.runOne") && !strings.Contains(fn, "core.Protect") {
					inLattigo, site, decided = false, shortFunc(fn), true
				}
			}
		}
		if !more {
			break
		}
	}
	return inLattigo, site, sb.String()
}

func trimPath(p string) string {
	if i := strings.Index(p, "/repo/"); i >= 0 {
		return p[i+6:]
	}
	if i := strings.Index(p, "/verif/sim/"); i >= 0 {
		return p[i+11:]
	}
	return p
}

var genericRe = regexp.MustCompile(`\[[^\]]*\]`)

func shortFunc(fn string) string {
	fn = strings.TrimPrefix(fn, lattigoPath+"/")
	fn = genericRe.ReplaceAllString(fn, "")
	return fn
}

// TaskPanic carries a panic out of a scheduled task.
type TaskPanic struct {
	Value     any
	InLibrary bool
	Site      string
	Stack     string
	Task      int
}

// ClassifyPanic is classifyPanic for other packages of the harness.
func ClassifyPanic(skip int) (bool, string, string) { return classifyPanic(skip + 1) }

// Protect runs f and converts a panic raised inside lattigo code into
// (panicked=true, site, message). Panics that originate in harness code, and
// the harness' own control-flow panics, are re-raised.
func Protect(f func()) (panicked bool, site string, msg string) {
	defer func() {
		if r := recover(); r != nil {
			switch r.(type) {
			case violationPanic, HarnessError, ErrTooManyDraws:
				panic(r)
			}
			in, s, st := classifyPanic(3)
			if !in {
				panic(HarnessError{fmt.Sprintf("panic in harness code at %s: %v\n%s", s, r, st)})
			}
			panicked, site, msg = true, s, fmt.Sprint(r)
		}
	}()
	f()
	return
}
