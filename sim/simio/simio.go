// Package simio is the simulated byte stream: readers that fragment, end
// early or fail, and sinks that fail after a number of bytes. All behaviour is
// a pure function of the schedule handed in by the caller.
package simio

import (
	"errors"
	"fmt"
	"io"
)

// ErrInjected is the error delivered by injected read/write failures.
var ErrInjected = errors.New("simio: injected I/O failure")

// NoProgress is the panic value raised when the code under test keeps calling
// Read although the stream has ended (deterministic hang detection).
type NoProgress struct{ Calls int }

// Schedule yields successive chunk sizes (>= 1).
type Schedule func() int

// Fixed returns a schedule of constant chunk size k.
func Fixed(k int) Schedule {
	if k < 1 {
		k = 1
	}
	return func() int { return k }
}

// Whole delivers everything that is asked for.
func Whole() Schedule { return func() int { return 1 << 30 } }

// FromFunc builds a schedule from a generator of raw numbers and a maximum.
func FromFunc(next func() uint64, max int) Schedule {
	if max < 1 {
		max = 1
	}
	return func() int { return 1 + int(next()%uint64(max)) }
}

// Cuts delivers chunks that end exactly at the given absolute offsets (then whole).
func Cuts(r *Reader, cuts []int) Schedule {
	return func() int {
		for _, c := range cuts {
			if c > r.pos {
				return c - r.pos
			}
		}
		return 1 << 30
	}
}

// Reader is a simulated io.Reader over data.
type Reader struct {
	data []byte
	pos  int
	// Sched gives the size of the next chunk.
	Sched Schedule
	// Halve: each read returns at most half of the remaining bytes.
	Halve bool
	// EOFWithData: the last chunk is delivered together with the end error.
	EOFWithData bool
	// EndErr is returned at the end of data (io.EOF for a clean end; any other
	// error models a broken transport). nil means io.EOF.
	EndErr error
	// Calls counts Read calls; AfterEnd counts calls made after the end error
	// has been delivered once.
	Calls    int
	AfterEnd int
	MaxAfter int
	Chunks   int
}

// NewReader returns a reader delivering data under sched.
func NewReader(data []byte, sched Schedule) *Reader {
	if sched == nil {
		sched = Whole()
	}
	return &Reader{data: data, Sched: sched, MaxAfter: 256}
}

// Pos is the number of bytes delivered so far.
func (r *Reader) Pos() int { return r.pos }

// Remaining is the number of undelivered bytes.
func (r *Reader) Remaining() int { return len(r.data) - r.pos }

func (r *Reader) end() error {
	if r.EndErr != nil {
		return r.EndErr
	}
	return io.EOF
}

// Read implements io.Reader.
func (r *Reader) Read(p []byte) (int, error) {
	r.Calls++
	if len(p) == 0 {
		return 0, nil
	}
	if r.pos >= len(r.data) {
		r.AfterEnd++
		if r.AfterEnd > r.MaxAfter {
			panic(NoProgress{r.Calls})
		}
		return 0, r.end()
	}
	k := r.Sched()
	if k < 1 {
		k = 1
	}
	rem := len(r.data) - r.pos
	if r.Halve && rem > 1 && k > rem/2 {
		k = rem / 2
	}
	if k > rem {
		k = rem
	}
	if k > len(p) {
		k = len(p)
	}
	copy(p, r.data[r.pos:r.pos+k])
	r.pos += k
	r.Chunks++
	if r.pos >= len(r.data) && r.EOFWithData {
		r.AfterEnd++
		return k, r.end()
	}
	return k, nil
}

// Sink is a simulated io.Writer that fails once FailAt bytes were accepted.
type Sink struct {
	Buf []byte
	// FailAt < 0: never fails.
	FailAt int
	// Partial: the failing Write accepts the bytes up to FailAt and reports
	// them together with the error; otherwise it accepts nothing of that call.
	Partial bool
	Err     error
	Failed  bool
	Calls   int
	// AfterFail counts writes attempted after the failure was reported.
	AfterFail int
}

// NewSink returns a sink; failAt < 0 never fails.
func NewSink(failAt int) *Sink { return &Sink{FailAt: failAt, Err: ErrInjected} }

// Write implements io.Writer.
func (s *Sink) Write(p []byte) (int, error) {
	s.Calls++
	if s.Failed {
		s.AfterFail++
		return 0, s.Err
	}
	if s.FailAt >= 0 && len(s.Buf)+len(p) > s.FailAt {
		s.Failed = true
		n := 0
		if s.Partial {
			n = s.FailAt - len(s.Buf)
			s.Buf = append(s.Buf, p[:n]...)
		}
		return n, s.Err
	}
	s.Buf = append(s.Buf, p...)
	return len(p), nil
}

// String describes the reader state.
func (r *Reader) String() string {
	return fmt.Sprintf("pos=%d/%d calls=%d chunks=%d", r.pos, len(r.data), r.Calls, r.Chunks)
}
