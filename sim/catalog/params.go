// Package catalog draws configurations (parameter sets, key material) and
// objects from the run's chooser.
package catalog

import (
	"fmt"
	"strings"

	"github.com/tuneinsight/lattigo/v6/core/rlwe"
	"github.com/tuneinsight/lattigo/v6/ring"
	"github.com/tuneinsight/lattigo/v6/ring/ringqp"

	"verifsim/core"
)

// RLWESpec is a drawn parameter request, expressed in bit sizes only.
type RLWESpec struct {
	LogN     int
	LogQ     []int
	LogP     []int
	RingType ring.Type
	NTT      bool
}

// Key is the cache key of a spec.
func (s RLWESpec) Key() string {
	return fmt.Sprintf("rlwe/N%d/Q%v/P%v/T%d/ntt%v", s.LogN, s.LogQ, s.LogP, s.RingType, s.NTT)
}

func (s RLWESpec) String() string { return strings.TrimPrefix(s.Key(), "rlwe/") }

// SpecOpts bounds the draw.
type SpecOpts struct {
	MinLogN, MaxLogN int
	MinQ, MaxQ       int
	MinP, MaxP       int
	MinBits, MaxBits int
	// ConjInvOneIn > 0: the conjugate-invariant ring (NthRoot = 4N) is drawn with probability 1/ConjInvOneIn.
	ConjInvOneIn int
}

// DrawRLWESpec draws ring degree and unequal prime sizes. Small values are
// favoured (value 0 of every draw gives the smallest configuration).
func DrawRLWESpec(ch *core.Chooser, o SpecOpts) RLWESpec {
	s := RLWESpec{NTT: true, RingType: ring.Standard}
	if o.ConjInvOneIn > 0 && ch.Chance("conjugate-invariant-ring", 1, o.ConjInvOneIn) {
		s.RingType = ring.ConjugateInvariant
	}
	s.LogN = o.MinLogN + ch.Draw("logN", o.MaxLogN-o.MinLogN+1)
	nq := o.MinQ + ch.Draw("nQ", o.MaxQ-o.MinQ+1)
	np := o.MinP + ch.Draw("nP", o.MaxP-o.MinP+1)
	minBits := o.MinBits
	if minBits < s.LogN+8 {
		minBits = s.LogN + 8
	}
	for i := 0; i < nq; i++ {
		s.LogQ = append(s.LogQ, minBits+ch.Draw("qbits", o.MaxBits-minBits+1))
	}
	for i := 0; i < np; i++ {
		s.LogP = append(s.LogP, minBits+ch.Draw("pbits", o.MaxBits-minBits+1))
	}
	return s
}

// Build constructs the parameters through the public constructor.
func (s RLWESpec) Build() (rlwe.Parameters, error) {
	return rlwe.NewParametersFromLiteral(rlwe.ParametersLiteral{
		LogN: s.LogN, LogQ: s.LogQ, LogP: s.LogP, RingType: s.RingType, NTTFlag: s.NTT,
	})
}

// FillPoly fills rows 0..level of p with uniform residues from rng.
func FillPoly(r *ring.Ring, p ring.Poly, rng *core.Xoshiro) {
	for i := range p.Coeffs {
		q := r.SubRings[i].Modulus
		row := p.Coeffs[i]
		for j := range row {
			row[j] = rng.Next() % q
		}
	}
}

// FillPolyQP fills a QP polynomial with uniform residues.
func FillPolyQP(r ringqp.Ring, p ringqp.Poly, rng *core.Xoshiro) {
	if r.RingQ != nil && p.Q.Level() >= 0 {
		FillPoly(r.RingQ, p.Q, rng)
	}
	if r.RingP != nil && p.P.Level() >= 0 {
		FillPoly(r.RingP, p.P, rng)
	}
}
