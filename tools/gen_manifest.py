#!/usr/bin/env python3
"""Regenerates /verif/MANIFEST.json from the tables below (single source of truth)."""
import json, os, sys
HERE = os.path.dirname(os.path.dirname(os.path.abspath(__file__)))

NA = {
"C01":"pure coefficient arithmetic of stateless ring kernels; quantifies over inputs and rings only - no schedule, fault, clock, I/O or history for a simulator to control",
"C02":"pure RNS basis-extension/rescaling/decomposition arithmetic; inputs and configurations only",
"C03":"encrypt/decrypt noise bounds are a function of (parameters, key, plaintext, PRNG stream); randomness is pinned by the simulator but is an input, not a fault; the copy/rebinding clause is exercised under C10",
"C04":"evaluation-key correctness is a function of (parameters, keys, ciphertext, PRNG stream); the compressed-key expansion clause is exercised under C17",
"C05":"deterministic evaluation of straight-line programs; no randomness, I/O, interleaving or fault; hidden-state and aliasing aspects are C09, copies C10",
"C06":"as C05 for the approximate scheme",
"C07":"encoders/decoders are pure functions of (parameters, vector, scale, level)",
"C11":"Galois-group algebra and rotation/inner-sum results are pure functions of (parameters, k, batch, n); key-list sufficiency is a configuration property",
"C12":"linear-transformation evaluation is a pure function of (diagonals, options, ciphertext)",
"C13":"polynomial evaluation depth/scale/result is a pure function of (polynomial, options, ciphertext)",
"C18":"bootstrapping correctness and key-modulus confinement are functions of the parameter literal and input; no schedule/fault dimension",
"C19":"parameter acceptance/rejection, prime generation and security-table lookups are pure functions of the literal; encodings of parameter objects are exercised under C08",
"C20":"external product / blind rotation results are pure functions of (parameters, keys, inputs)",
}
PENDING = "check under construction (deterministic simulation engine planned in DESIGN.md); not claimed until its check is registered"

CHECKS = {
"C08": dict(
  engine="simio",
  technique="deterministic simulation of the byte stream with fault injection: seeded chunk schedules, dirty and shrunk receivers, bystander objects, multi-object streams, enumeration of every truncation and sink-failure offset, header corruption; minimised choice-trace replay",
  category="fault_enumeration",
  text="Every run is one seed-determined execution of the real serialization code against a simulated transport: all writing entry points must agree byte for byte and deliver BinarySize bytes; decoding under any drawn fragmentation into fresh and previously used receivers must reproduce the object (own Equal + re-encoding) and consume exactly the bytes written, also back-to-back through one caller-owned reader; about one run in twelve enumerates every truncation offset and every sink-failure offset of an encoding (the crash-point dimension), the others inject drawn truncations, sink failures and header-field corruptions. A clean batch is evidence over the sampled schedules, not a proof; the offset sweeps are exhaustive for the sampled encodings.",
  design_ref="DESIGN.md section 4",
  note="Trusted: Go runtime/bufio, the harness' simulated reader/sink, the object generators (random residues, not cryptographically meaningful keys). Corruption positions are found format-independently (small little-endian words, 0/1 bytes); for encodings containing map keys the 'accepted but shorter' sub-check is skipped (a collided key is not a length/flag field). Allocation bound 1 GiB. The catalog (about 50 types) includes JSON entry points, parameter literals, the bootstrapping key bundle and vectors longer than the decoder's growth step. Later additions: the built bootstrapping.Parameters, one reused buffer.Buffer as transport of a whole stream, dirty receivers taken from the ring of half the degree.",
),
"C09": dict(
  engine="histsim",
  technique="deterministic simulation of call histories on long-lived evaluators / encoders / key generators / rings with seeded aliasing patterns, dirty outputs and scratch-memory poisoning (fault injection into memory that by contract carries no information); twin execution on a pristine object with copied inputs and a clean natural-shape output; minimised choice-trace replay",
  category="exploration",
  text="Each run is a seed-determined history of 6-30 operations of the integer (standard and scale-invariant) or approximate evaluator on a pool of ciphertexts whose members are earlier results. Every step draws operand kinds (ciphertext, plaintext, vector, every scalar Go type incl. *big.Int/*big.Float), an aliasing pattern (out==op0, out==op1, op0==op1, all equal, or a dirty output of larger degree/level with arbitrary content and metadata) and whether all scratch memory reachable from the evaluator is overwritten with garbage first. The same call is executed on a freshly built twin with deep copies of the inputs and a zeroed distinct output of the natural shape. Oracles: every non-output argument is bit-identical after the call; the status (ok/error/panic) agrees (an aliased or mis-shaped output may be refused with an error); accepted calls produce the same ciphertext (level, metadata, polynomials compared canonically, trailing zero components ignored); evaluation keys unchanged; the embedded encoder after the history and poisoning agrees with a new one; encrypt/decrypt leave inputs intact and ignore the previous content and level of their output. Input-intactness of protocol methods is checked inside the C14-C16 workloads.",
  design_ref="DESIGN.md section 6",
  note="Trusted: the harness' canonical comparison and deep-copy (CopyNew) of inputs. Scratch is found by field name (buff*/buf*/tmp*/pool*) and type; poisoned byte counts are reported. Operations documented as in place or as no-op (DropLevel, MatchScalesAndLevel, Rescale in scale-invariant mode) are modelled as documented. Besides the bgv/bfv/ckks evaluators the catalog holds the scheme-agnostic rlwe evaluator (with and without the NTT flag), rgsw external product, linear transformations, polynomial evaluation (single, vectors, sparse Chebyshev), hoisted rotations, 59 ring.Ring operations, key-generator calls into reused receivers and the plaintext-ring entry points of the integer encoder; values of the pool that are not arguments of a call must stay unchanged (bystanders). The thorough tier also draws (1 in 400) the bootstrapping evaluator and the DFT / modular-reduction evaluators under it (inputs intact, output aliasing an input). Later additions: history kinds for ringqp / basis extension, ring packing, the ckks domain switcher, blind rotation; the circuits on composite minimax polynomials (comparison, inverse; one history in a hundred and a third of the heavy tier: arguments intact); big-number scalars at every precision; identity rotations; re-encryption from the ring of half the degree.",
),
"C10": dict(
  engine="simsched",
  technique="deterministic simulation of caller goroutines: real goroutines released one library operation at a time by a seeded scheduler whose hand-offs are hidden from the race runtime, so ThreadSanitizer's vector clocks report any conflicting access of two tasks in every schedule; sequential reference results; in a second, race-free binary: copy-vs-original differential, field-by-field configuration comparison of every copy with its source, a state-footprint oracle (a step on one concurrently usable copy must not change any memory another one can reach - needed because the race runtime silently drops conflicts whose earlier access has left its bounded history), deep-copy completeness / independence / internal aliasing structure; minimised choice-trace replay",
  category="exploration",
  text="Two phases. Plain binary: per run a scenario of the copy catalog (integer/approximate evaluators, encoders incl. non-default precision and small plaintext ring, encryptor/decryptor, rlwe evaluator with Galois keys added after construction, ring level views + basis extenders, key-generation / key-switch / refresh protocols, rgsw) builds a fully configured original, derives copies through drawn chains of ShallowCopy / WithKey(same) / copy-of-copy, runs a drawn program on all of them in a drawn interleaving: same results and status on the copy as on the original, randomised operations valid and different, a pristine original afterwards behaves like the used one; one run in four checks CopyNew of drawn serializable objects (complete, no shared backing arrays, scrambling the copy leaves the original intact). Race binary: 2-8 tasks, each owning its own copy (or the original) and sharing keys, parameters and inputs, run under the seeded scheduler; a data race is reported by the race runtime whatever the schedule, and after the join every deterministic result must equal the sequential reference, randomised results must be valid and pairwise different.",
  design_ref="DESIGN.md section 5",
  note="Trusted: Go race runtime; the argument that for synchronisation-free library code a vector-clock conflict is a race in every interleaving. The bootstrapping evaluator scenario (seconds per run) is drawn in the thorough tier only; blind-rotation evaluators offer no copy constructor. Sampler WithPRNG/AtLevel semantics are decided under C17.",
),
"C14": dict(
  engine="simnet",
  technique="deterministic discrete-event network simulation of N parties and a tree of aggregators running several collective key-generation instances concurrently: seeded delay/reordering, duplication, in-transit serialization, aliasing forms of aggregation, recycled share receivers, mis-routed shares; standard and conjugate-invariant rings; ideal-secret oracles computed with the simulator's knowledge of all secrets; minimised choice-trace replay",
  category="exploration",
  text="Each run simulates 1..8 parties (each with its own CRS reader and protocol objects) and 1..3 aggregators executing 2..5 concurrent instances of the public-key, relinearisation-key (both rounds), Galois-key and generic evaluation-key protocols with drawn (LevelQ, LevelP, BaseTwoDecomposition) over moduli of unequal size. Oracles: reference polynomials bit-identical at every node; the aggregate that emerged from the network equals the index-order aggregate of the recorded shares; every gadget row of the final key satisfies b + a*s_out = P*w*s_in + e with |e| below the hard bound implied by the declared error distribution (N*B; protocol bound for the relinearisation key); the key works in the single-party evaluator (re-encrypt / rotate / relinearise, residual below a hard key-switch bound, compared with a single-party key of the ideal secret); mis-routed shares are rejected with an error and leave the aggregate unaffected; every instance terminates once all messages are delivered.",
  design_ref="DESIGN.md section 7.1",
  note="Trusted: lattigo ring arithmetic and CRT reconstruction as substrate of the oracles; the hard key-switch bound formula (upper bound, calibrated on single-party keys; when it exceeds Q/4 the functional oracle is skipped and counted). Mis-routing is injected only into protocols whose AggregateShares returns an error. Parameterisations for which a single-party key of the ideal secret fails the same use are counted (probe single-party-key-fails-too), not reported.",
),
"C15": dict(
  engine="simnet",
  technique="deterministic discrete-event network simulation of the threshold set-up and reconstruction: seeded message delay/reordering, duplication, in-transit serialization, crash of parties during and after set-up, long-lived combiners; ideal-secret oracle; minimised choice-trace replay",
  category="exploration",
  text="Each run simulates N parties (1..6) sharing their secrets over a transport that delays, reorders, duplicates and serializes the Shamir shares, aggregated by each recipient in arrival order and in every aliasing form; parties crash during set-up (abort: only absence of panics is asserted) or afterwards; then drawn t-subsets of survivors (about 1 run in 8: every t-subset) reconstruct, each party listing the active set in its own order on a Combiner that is reused across rounds and was built from a differently ordered 'others' list. The simulator knows every secret, so it checks that the additive shares sum to the ideal secret in every RNS row of Q and P, that inputs are untouched, and that any listing shorter than t is refused with an error; after the faults stop every party must hold all N set-up shares (bounded liveness).",
  design_ref="DESIGN.md section 7.2",
  note="Trusted: ringqp.Add for summing keys, the harness' canonical comparison. Points are drawn distinct and non-zero modulo every prime (Shamir precondition). The downstream 'same decryptions as the N-party run' clause follows from equality of the summed key and is exercised end-to-end in C16's threshold mode.",
),
"C16": dict(
  engine="simnet",
  technique="deterministic discrete-event network simulation of collective key switching, share conversion, refresh and masked transform for both schemes: seeded delay/reordering, duplication, in-transit serialization, aggregator trees and aliasing forms, t-out-of-N deployments with crashed parties; message-model and smudging oracles computed with the simulator's knowledge of all secrets; minimised choice-trace replay",
  category="exploration",
  text="Each run draws a scheme (integer with drawn plaintext modulus, or approximate with drawn scale / slot count / ring type), a deployment of 1..8 parties (one third of the runs: a t-out-of-N deployment whose survivors use additive shares from the Combiner), an input ciphertext at a drawn level and scale after drawn homomorphic operations, a noise-flooding sigma, and 1-3 protocol instances among key switch to a shared key, collective decryption, public-key switch, encryption-to-shares and back, refresh and masked transform (linear slot maps, decode/encode flags). Shares travel over the simulated transport into a 1-2 level aggregator tree. Oracles: aggregate equals the index-order aggregate; the target key decrypts to the original plaintext within N times the hard share bound; additive shares sum to the plaintext (exactly mod t when a hard noise budget is left; within N*bound per coefficient for the approximate scheme); re-encryption / refresh / transform outputs decode to the message resp. f(message) at the requested level and scale with the documented metadata; each share's error, recovered with the party's secrets, lies within the declared bound and has empirical sigma >= (1-8/sqrt(2n)) of the requested smudging sigma; inputs are untouched.",
  design_ref="DESIGN.md section 7.3",
  note="Trusted: lattigo encoders/decryptor/ring arithmetic as substrate; plaintext expectations are computed independently (Go integers, big floats). Exactness (integer scheme) only when 4*T*(measured input noise + N*share bound) < Q; approximate scheme compared with a hard slot tolerance n*(coefficient bound)/scale. Transform functions are linear. Parameter switching (another modulus chain, default scale and - approximate scheme - ring of twice the degree) is drawn for refresh and transform; key-switching inputs are in or outside the NTT domain; receivers are the input, new, or carry foreign metadata.",
),
"C17": dict(
  engine="histsim",
  technique="deterministic simulation of call histories on samplers and their level views over one keyed source, twin execution from the same key, reset-and-replay, per-call distribution-contract invariants; minimised choice-trace replay",
  category="exploration",
  text="Each run is a seed-determined history of Read/ReadNew/ReadAndAdd/AtLevel calls on a sampler (uniform, Gaussian incl. the big-number path, ternary with density or fixed weight; Montgomery or not) and on arbitrarily interleaved level views sharing its source. A twin built from the same key executes the same calls and must agree bit for bit, as must the replay after KeyedPRNG.Reset; after every call the produced sample (for ReadAndAdd: the difference with the previous content) is CRT-reconstructed and checked against the declared support, cross-modulus consistency and Hamming weight; repeated polynomials or repeated halves (reused buffer bytes) are flagged; moments are checked in bands of at least 8 standard errors; compressed evaluation keys must expand to the stream of a sampler keyed with the stored seed. No fault is injected (a failing PRNG is outside the contract); what the simulator contributes is the history/interleaving search, twin and replay.",
  design_ref="DESIGN.md section 8",
  note="Trusted: ring.PolyToBigintCentered / IMForm as substrate (each reconstructed value is re-verified row by row with math/big), BLAKE2b XOF. Residues are compared canonically (q standing for 0 is accepted). Support is only decided when the modulus at the view's level exceeds twice the bound. Statistical clauses are sampled, not proved.",
),
}

def main():
    checks = []
    for pid, c in sorted(CHECKS.items()):
        checks.append({
            "property_id": pid,
            "quick_cmd": f"./check {pid} quick",
            "thorough_cmd": f"./check {pid} thorough",
            "evidence_file": f"/verif/evidence/{pid}.json",
            "replay_cmd_template": "./check replay {path}",
            "engine": c["engine"],
            "technique": c["technique"],
            "level_claimed": {"category": c["category"], "text": c["text"], "design_ref": c["design_ref"]},
            "level_note": c["note"],
        })
    na = dict(NA)
    for pid in ["C08","C09","C10","C14","C15","C16","C17"]:
        if pid not in CHECKS:
            na[pid] = PENDING
    m = {
        "version": 1,
        "setup_cmd": "./check setup",
        "hooks": {
            "guard": "verif",
            "enable": "go build -tags verif (the harness module /verif/sim replaces the lattigo module by /repo, so the working tree is what is compiled); no hook in /repo is needed so far",
            "baseline_off_cmd": "cd /repo && go test -vet=off -count=1 -timeout 25m ./...",
            "source_commits": [],
            "add_only": True,
        },
        "engines": [
            {"name": "core", "path": "sim/core", "serves_properties": sorted(CHECKS), "kind_free_text": "seeded chooser (single source of choices), deterministic crypto/rand replacement, worker processes with fatal-error attribution, delta-debugging shrinker on the choice trace, replay files, determinism audit, evidence writer"},
            {"name": "simio", "path": "sim/simio", "serves_properties": ["C08"], "kind_free_text": "simulated byte stream: fragmenting/ending/failing reader, failing sink"},
            {"name": "simnet", "path": "sim/simnet", "serves_properties": [p for p in ["C14", "C15", "C16"] if p in CHECKS], "kind_free_text": "discrete-event network simulator: virtual clock, event heap ordered by (time, seq), transport with seeded delay/reordering/duplication, party crash, bounded event budget"},
            {"name": "simsched", "path": "sim/simsched", "serves_properties": [p for p in ["C10"] if p in CHECKS], "kind_free_text": "cooperative goroutine scheduler: one runnable task, next task drawn from the chooser, hand-offs hidden from the race runtime (runtime.RaceDisable), visible join"},
            {"name": "histsim", "path": "sim/props (c17.go, c09.go)", "serves_properties": [p for p in ["C09", "C17"] if p in CHECKS], "kind_free_text": "history simulator: seeded call histories on long-lived objects with twin execution, scratch poisoning and reset/replay"},
        ],
        "checks": checks,
        "not_applicable": [{"property_id": k, "reason": v} for k, v in sorted(na.items())],
        "notes": "Deterministic simulation with fault injection; see DESIGN.md. Genuine defects found and repaired are listed in known_findings.json (status fixed:<commit>).",
    }
    json.dump(m, open(os.path.join(HERE, "MANIFEST.json"), "w"), indent=1)
    print("MANIFEST.json written:", len(checks), "checks,", len(na), "not applicable")

if __name__ == "__main__":
    main()
