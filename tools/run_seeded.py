#!/usr/bin/env python3
"""Applies every seeded change in /verif/seeded to /repo in turn, runs the property's quick check
(and the extra checks listed below), records which check reports it. /repo is restored after each.
Writes /verif/seeded/RESULTS.json and RESULTS.md. Usage: run_seeded.py [name ...]
With SEEDED_TREE=<worktree of /repo at HEAD> the changes are applied to that tree instead and the checks run from a
scratch copy of /verif (SEEDED_COPY, default /tmp/vseed) whose module points at it: /repo stays untouched, so that a
thorough batch can run on /repo at the same time."""
import json, os, subprocess, sys, re
SEED = "/verif/seeded"
TREE = os.environ.get("SEEDED_TREE", "/repo")
COPY = os.environ.get("SEEDED_COPY", "/tmp/vseed")
VDIR = "/verif" if TREE == "/repo" else COPY
EXTRA = {"C09-b2": ["C14"], "C10-a3": ["C17"], "C10-w3-1": ["C17"], "C14-w8-3": ["C10"], "C10-w10-1": ["C09"], "C10-w11-1": ["C09"], "C14-w11-2": ["C08"], "C09-w12-1": ["C16"], "C17-w12-3": ["C14"], "C14-w14-2": ["C08"], "C09-w15-1": ["C16"], "C14-w15-2": ["C10"]}  # detected by a neighbouring property's check
TIER = {"C10-w2-3": "heavy", "C10-w3-3": "heavy", "C09-w5-3": "heavy", "C09-w7-3": "heavy", "C10-w7-3": "heavy", "C10-w8-1": "heavy", "C10-w10-1": "heavy"}  # needs a scenario that only the thorough tier draws ("heavy" = that scenario alone, 80 runs)
def sh(cmd, cwd=None, timeout=3600):
    cwd = cwd or VDIR
    p = subprocess.run(cmd, cwd=cwd, shell=True, stdout=subprocess.PIPE, stderr=subprocess.STDOUT, timeout=timeout, env=dict(os.environ, VERIF_SHRINK_SECONDS="8"))
    return p.returncode, p.stdout.decode(errors="replace")
def main():
    names = sys.argv[1:] or sorted(d for d in os.listdir(SEED) if os.path.isdir(os.path.join(SEED, d)))
    if TREE != "/repo":
        sh("rsync -a --delete --exclude .git --exclude bin --exclude work --exclude replays --exclude seeded /verif/ %s/" % COPY, cwd="/")
        sh("sed -i 's#=> /repo#=> %s#' %s/sim/go.mod && sed -i 's#cp /repo/go.sum#cp %s/go.sum#' %s/check" % (TREE, COPY, TREE, COPY), cwd="/")
    rc, out = sh("git -C %s status --porcelain --untracked-files=no" % TREE)
    if out.strip():
        print("repo dirty"); sys.exit(2)
    path = os.path.join(SEED, "RESULTS.json")
    results = json.load(open(path)) if os.path.exists(path) else {}
    head = sh("git -C %s rev-parse --short HEAD" % TREE)[1].strip()
    for n in names:
        d = os.path.join(SEED, n)
        meta = json.load(open(os.path.join(d, "meta.json")))
        prop = meta["property"]
        rc, out = sh("git -C %s apply %s/patch.diff" % (TREE, d))
        if rc != 0:
            results[n] = {"property": prop, "applies": False, "repo_head": head, "note": out.strip()[:200]}
            print(n, "DOES NOT APPLY"); continue
        try:
            res = {"property": prop, "applies": True, "repo_head": head, "checks": {}}
            for chk in [prop] + EXTRA.get(n, []):
                tier = TIER.get(n, "quick")
                rc, out = sh("./check %s %s" % (chk, tier))
                keys = sorted(set(re.findall(r"key=(\S+)", out)))
                res["checks"][chk] = {"exit": rc, "violation_keys": keys[:6], "tier": tier}
            res["detected"] = any(c["exit"] == 1 for c in res["checks"].values())
            res["detected_by"] = [k for k, c in res["checks"].items() if c["exit"] == 1]
            results[n] = res
            print(n, "DETECTED by " + ",".join(res["detected_by"]) if res["detected"] else "MISSED", flush=True)
        finally:
            sh("git -C %s checkout -- ." % TREE)
        json.dump(results, open(path, "w"), indent=1)
    with open(os.path.join(SEED, "RESULTS.md"), "w") as f:
        f.write("| seeded change | property | detected by (quick tier unless noted) | first violation key |\n|---|---|---|---|\n")
        for n in sorted(results):
            r = results[n]
            if not r.get("applies"):
                f.write("| %s | %s | (patch no longer applies) | |\n" % (n, r["property"])); continue
            keys = [k for c in r["checks"].values() for k in c["violation_keys"]]
            f.write("| %s | %s | %s | %s |\n" % (n, r["property"], ((", ".join(r["detected_by"]) + "".join(" (%s tier)" % c["tier"] for c in r["checks"].values() if c.get("tier", "quick") != "quick")) if r["detected_by"] else "**missed**"), (keys[0] if keys else "").replace("|", "\\|")))
    sh("rm -rf %s/replays" % VDIR)
if __name__ == "__main__":
    main()
