#!/bin/bash
# usage: try_mutant.sh <patch.diff> <ID> [tier] : apply a seeded change to /repo, run the check, always undo.
P=$1; ID=$2; TIER=${3:-quick}
cd /repo || exit 2
if [ -n "$(git status --porcelain --untracked-files=no)" ]; then echo "repo dirty"; exit 2; fi
git apply "$P" || { echo "patch does not apply"; exit 2; }
trap 'git -C /repo checkout -- . ' EXIT
cd /verif && timeout 3600 ./check "$ID" "$TIER" 2>&1 | grep -E "^(VIOLATION|violation:|KNOWN|INFRA)" | cut -c1-400 | head -12
echo "exit=${PIPESTATUS[0]}"
