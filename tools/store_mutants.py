#!/usr/bin/env python3
"""store_mutants.py <prop> <name>=<dir> ... : copy confirmed seeded changes into /verif/seeded/<name>/"""
import json, os, shutil, sys
prop = sys.argv[1]
for arg in sys.argv[2:]:
    name, d = arg.split("=", 1)
    conf = json.load(open(os.path.join(d, "confirm.json")))
    if not conf.get("confirmed"):
        print("skip (not confirmed):", name); continue
    meta = json.load(open(os.path.join(d, "meta.json")))
    dst = os.path.join("/verif/seeded", name)
    os.makedirs(dst, exist_ok=True)
    shutil.copy(os.path.join(d, "patch.diff"), os.path.join(dst, "patch.diff"))
    shutil.copy(os.path.join(d, "demo_test.go"), os.path.join(dst, "demo_test.go.txt"))
    out = {
        "property": prop,
        "summary": meta.get("summary"),
        "needs": meta.get("needs"),
        "files": meta.get("files"),
        "demo": {"file": "demo_test.go.txt (copy into %s/ as a _test.go file)" % conf["pkg"], "tests": conf["tests"], "author_instructions": meta.get("demo")},
        "confirmed_by_me": {
            "repo_head": conf["repo_head"],
            "what_i_ran": "tools/confirm_mutants.py in a scratch worktree of /repo: demo passes on the clean tree; with the patch applied `go build ./...` succeeds, the demo fails, and `go test -vet=off -count=1 ./...` (unedited suite) passes",
            "demo_clean_pass": conf["demo_clean_pass"], "builds": conf["builds"], "demo_patched_fails": conf["demo_patched_fails"], "suite_passes_with_patch": conf["suite_passes_with_patch"],
        },
        "origin": "written by an independent sub-agent that saw only the property text and its own worktree",
    }
    json.dump(out, open(os.path.join(dst, "meta.json"), "w"), indent=1)
    print("stored", name)
