#!/usr/bin/env python3
"""Confirm seeded changes independently: usage confirm_mutants.py <name>=<mutantdir> ...
For each: in a scratch worktree of /repo HEAD, the demo passes on the clean tree; with the patch
the tree builds, the demo fails, and the unedited test suite passes. Results -> <mutantdir>/confirm.json"""
import json, os, re, subprocess, sys, shutil
ENV = dict(os.environ, GOFLAGS="-mod=mod", GOPROXY="off", GOSUMDB="off", GOTOOLCHAIN="local")
def run(cmd, cwd, timeout=1500):
    p = subprocess.run(cmd, cwd=cwd, shell=True, env=ENV, stdout=subprocess.PIPE, stderr=subprocess.STDOUT, timeout=timeout)
    return p.returncode, p.stdout.decode(errors="replace")
def main():
    wt = "/tmp/wt-confirm-%d" % os.getpid()
    run("git -C /repo worktree add -q --detach %s HEAD" % wt, "/")
    try:
        for arg in sys.argv[1:]:
            name, d = arg.split("=", 1)
            meta = json.load(open(os.path.join(d, "meta.json")))
            demo_src = os.path.join(d, "demo_test.go")
            m = re.search(r"cp _mutants/\d+/demo_test.go (\S+)/[^/ ;]+", str(meta.get("demo")))
            pkg = m.group(1)
            tests = re.findall(r"^func (Test\w+)\(", open(demo_src).read(), re.M)
            runre = "^(" + "|".join(tests) + ")$"
            dst = os.path.join(wt, pkg, "zz_seeded_demo_test.go")
            res = {"name": name, "pkg": pkg, "tests": tests, "repo_head": run("git -C /repo rev-parse --short HEAD", "/")[1].strip()}
            run("git checkout -q -- . && git clean -fdq", wt)
            shutil.copy(demo_src, dst)
            rc, out = run("go test -vet=off -count=1 -run '%s' ./%s/" % (runre, pkg), wt)
            res["demo_clean_pass"] = rc == 0
            res["demo_clean_tail"] = out[-300:]
            rc, out = run("git apply %s" % os.path.join(d, "patch.diff"), wt)
            res["applies"] = rc == 0
            if rc == 0:
                rc, out = run("go build ./...", wt)
                res["builds"] = rc == 0
                rc, out = run("go test -vet=off -count=1 -run '%s' ./%s/" % (runre, pkg), wt)
                res["demo_patched_fails"] = rc != 0
                res["demo_patched_tail"] = out[-500:]
                os.remove(dst)
                rc, out = run("go test -vet=off -count=1 -timeout 25m ./...", wt, timeout=2400)
                res["suite_passes_with_patch"] = rc == 0
                res["suite_tail"] = "\n".join([l for l in out.split("\n") if l.startswith(("FAIL", "---", "panic"))][:10])
            res["confirmed"] = all(res.get(k) for k in ("demo_clean_pass", "applies", "builds", "demo_patched_fails", "suite_passes_with_patch"))
            json.dump(res, open(os.path.join(d, "confirm.json"), "w"), indent=1)
            print(name, "confirmed" if res["confirmed"] else "NOT CONFIRMED", {k: v for k, v in res.items() if isinstance(v, bool)}, flush=True)
    finally:
        run("git -C /repo worktree remove --force %s" % wt, "/")
if __name__ == "__main__":
    main()
