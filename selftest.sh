#!/bin/bash
# Determinism audit + driver self-test (see DESIGN.md 3.3). Exit 0 ok, 2 machinery defect.
cd "$(dirname "$0")" || exit 2
bin/simcheck selftest -verif "$(pwd)" -seeds "${SELFTEST_SEEDS:-40}" -runs "${SELFTEST_RUNS:-3}" || exit 2
# driver self-test: a toy violation must be reported, shrunk and replayed; a toy fatal error must be attributed
out=$(bin/simcheck drive -prop T00 -tier toy-violation -evidence work/t00.json 2>&1); echo "$out" | grep -q "^VIOLATION property=T00" || { echo "selftest: toy violation not reported"; exit 2; }
out=$(bin/simcheck drive -prop T00 -tier toy-fatal -evidence work/t00.json 2>&1); echo "$out" | grep -q "stack-overflow" || { echo "selftest: toy fatal error not attributed"; exit 2; }
out=$(bin/simcheck drive -prop T01 -tier toy-race -phases T01:race -evidence work/t01.json 2>&1); echo "$out" | grep -q "DATA RACE" || { echo "selftest: toy race not reported"; exit 2; }
out=$(bin/simcheck drive -prop T01 -tier quick -phases T01:race -evidence work/t01.json 2>&1); echo "$out" | grep -q "VIOLATION" && { echo "selftest: race oracle fired on race-free toy"; exit 2; }
rm -f replays/T0*.json
echo "driver self-test ok"
